#!/usr/bin/env python3
"""Regenerate MANIFEST.json from the table below (kept valid at all times)."""
import json, os
HERE = os.path.dirname(os.path.abspath(__file__))
CHECKS = {
 'C07': dict(cat='fault_enumeration', tech='exhaustive enumeration of range/option probes per parameter x configuration family + Hypothesis random magnitudes; oracle: client must raise naming the parameter with no result file / bound accepted and stored as supplied',
             text='Every float/int parameter of every configuration family (19 families incl. SBT, SUTRA, add-ons, S-DAC-GT, AGS/TOUGH2/UPP up to read_parameters, HIP-RA-X) is probed at just-below-min (1 ulp and coarse), min, max, just-above-max and non-member options; the whole finite product is enumerated in the quick tier and random far-outside / strictly-inside values are added by Hypothesis.',
             note='Trusts: the live ParameterDict declarations as the documented ranges (C19 ties them to the published schema); acceptance decided at Model()+read_parameters(); list-valued parameters are outside the statement.', ref='2/C07'),
}
CHECKS['C03'] = dict(cat='exploration', tech='Hypothesis-generated configurations with a cost-override layer; oracle: independent roll-up of the run\'s own reported components (invariant over the snapshot taken between Calculate and PrintOutputs)',
             text='Generated runs over every end-use/plant family x econ model x cost layer (user-fixed vs correlated components, adjustment factors, totals, ITC/grants/fees/tax relief, correlations 1..17, laterals, redrilling); CCap, RITCValue, Coam, Cwell, Cpiping and the end-use equipment part of Cplant are recomputed from the reported parts at rel 1e-9 and every user-supplied figure must appear unchanged.',
             note='Trusts the snapshot walker (copies every Parameter/OutputParameter after Calculate). Standard Economics class only; sampled, not exhaustive, over continuous inputs.', ref='2/C03')
CHECKS['C04'] = dict(cat='exploration', tech='Hypothesis-generated configurations with price/PTC/carbon/construction-year layers; oracle: independent rebuild of cash flow, running sum, NPV/IRR/VIR/MOIC/payback relations from the reported series',
             text='Generated runs (every end-use, construction years 1..14, lifetime 1..100, escalation/PTC/carbon settings, both NPV conventions, with and without add-ons); the yearly cash flow is rebuilt from reported energy x price + carbon - O&M and -CAPEX/cy, the cumulative must be its running sum, and NPV, IRR (must zero the NPV), VIR, MOIC and payback (crossing year / N/A) are recomputed; the same metric relations are applied to the add-on project series.',
             note='Sampled inputs; runs with non-positive capital cost and S-DAC-GT excluded by rule and counted; known finding F-C04-a (add-on IRR fraction) is matched narrowly by clause+scope+explanation.', ref='2/C04')
CHECKS['C01'] = dict(cat='exploration', tech='Hypothesis-generated configurations; oracle: independent scalar-loop reference of the FCR / Standard / BICYCLE levelized-cost formulas applied to the run\'s own reported CCap, Coam, allocation ratio, other annual costs and yearly energy series',
             text='Generated runs over econ model x end-use x plant type x reservoir model with cost, price and add-on layers and year-to-year varying energy; LCOE/LCOH/LCOC are recomputed by a reference written independently of the code (plain loops, rel 1e-9). Deviations are classified by which alternative cost term explains them, so the three recorded findings (F-C01-a/b/c) are matched narrowly and anything else is reported.',
             note='Trusts the documented reading of other annual costs (pumping for heat-only end uses, heat-pump electricity, peaking fuel / boiler efficiency). Sampled inputs; S-DAC-GT, SBT/SUTRA/AGS economics and NaN-valued degenerate runs excluded and counted.', ref='2/C01')
CHECKS['C16'] = dict(cat='exploration', tech='exhaustive integer grid + Hypothesis floats against a closed-form schedule (direct calls of BuildPricingModel/BuildPTCModel); metamorphic paired runs with/without incentives; run-level price series vs closed form',
             text='The two schedule builders are compared with the closed form over a strided (quick) or full (thorough) integer grid lifetime x escalation start x PTC duration and over random float settings incl. start > end; generated runs check the zero construction-year prefix and the operating part of every price series; paired runs check RITCValue = rate x cost and the exact CCap / Coam deltas of grants, incentives, fees and tax relief, alone and combined.',
             note='PTC durations restricted to 0..lifetime as in the statement; heat/cooling PTC amount not checked (unit conversion not fixed by the statement); sampled floats.', ref='2/C16')
CHECKS['C02'] = dict(cat='exploration', tech='Hypothesis-generated configurations; oracle: per-time-step energy-balance identities and an independently coded yearly trapezoid recomputed from the snapshot',
             text='Generated runs over every surface-plant class (sub/supercritical ORC, single/double flash, industrial, heat pump, chiller, district heating) and all cogeneration variants, lifetime 1..100 x time steps 1..100; heat extracted, net electricity, efficiency/COP relations, the cogeneration heat split, the district daily supply/demand balance, every annual kWh series and remaining reservoir heat are recomputed at rel 1e-9.',
             note='Year slices follow the documented sample-index convention (slice i = samples [i*tspy,(i+1)*tspy], short last slice). Add-on and S-DAC-GT runs are outside the quantifier; sampled inputs.', ref='2/C02')
CHECKS['C05'] = dict(cat='exploration', tech='Hypothesis-generated segment layouts against an independent piecewise-linear geotherm walk (reservoir module run on the read model); generated full runs for the drawdown limit / periodic restart / monotonicity invariants, closed-form percentage-drawdown profile as reference',
             text='Thousands of 1..4-segment layouts (both sides of the gradient and thickness unit conventions, zero gradients, Tmax cap active or not) compare Trock, effective depth and Tres[0] with a reference walk; generated runs with Maximum Drawdown in (0,1] check that production temperature never falls below the limit, that the profile is periodic with a period consistent with the reported redrilling count (exact count and restart for model 4 without Ramey via the closed form), and that models 3/4 stay below BHT and non-increasing inside a cycle.',
             note='Input heuristics (gradient <=1 is degC/m, thickness <100 is km) are treated as input grammar. The bound/monotone clause presumes injection temperature below BHT (counted when skipped). One genuine defect found and repaired (F-C05-a, stale redrilling count with district heating).', ref='2/C05')
CHECKS['C15'] = dict(cat='exploration', tech='Hypothesis over direct calls of the pressure predictors (closed form with the documented integer-step rounding) and of the friction routine (metamorphic: larger diameter, not larger loss); generated runs under both hydraulic models checking sign and additivity invariants of pumping power and the shape of the pressure series',
             text='~40 000 predictor cases (lifetime x steps x overpressure x rates incl. rates that do not divide 100 evenly), 4 000 ordered diameter pairs through WellPressureDrop / InjectionWellPressureDrop, and ~1 000 generated runs (impedance and PI/II models, pumped and flash plants, overpressure with split injection reservoir) check PumpingPower >= 0, total = production + injection with both >= 0, start at pct x hydrostatic, constant decline at the stated rate, floor at hydrostatic, injection pressure rising at rate/tspy.',
             note='Overpressure is only generated under the PI/II model (with the impedance model the report writer fails: rejected input). No declared range exists for overpressure percentage / rates: generator uses 100..400 % and 0.01..100 %/yr.', ref='2/C15')
CHECKS['C17'] = dict(cat='exploration', tech='Hypothesis inputs to HIP-RA-X in-process; additive identities and orderings on one run; metamorphic pairs (area x k, thickness x k, same quantity written in another catalogue unit via an independent conversion table)',
             text='12 000 (quick) generated in-range inputs incl. sub-1 % porosity, derived vs provided depth/pressure/fluid properties; volumes as porosity fractions, stored = rock + fluid, available <= stored, producible <= available; extensive outputs must scale by exactly k (rel 1e-9) and per-area / per-volume / percentage / specific outputs stay put; unit variants must give the same outputs (rel 1e-7).',
             note='Known finding F-C17-a (compound-unit inputs abort, root cause shared with F-C06-a) matched by clause+error+parameter. States the water-property backend refuses are rejected inputs.', ref='2/C17')
NOT_YET = {}
def main():
    props = [json.loads(l) for l in open(os.path.join(HERE, 'properties.jsonl'))]
    checks = []
    for pid, c in sorted(CHECKS.items()):
        checks.append({
            'property_id': pid, 'quick_cmd': f'./check {pid} quick', 'thorough_cmd': f'./check {pid} thorough',
            'evidence_file': f'/verif/evidence/{pid}.json', 'replay_cmd_template': f'./check {pid} --replay {{path}}',
            'engine': 'gxv', 'level_claimed': {'category': c['cat'], 'text': c['text'], 'design_ref': 'DESIGN.md section ' + c['ref']},
            'level_note': c['note'], 'technique': c['tech']})
    na = [{'property_id': p['id'], 'reason': NOT_YET.get(p['id'], 'check not built yet in this round (design in DESIGN.md section 2); property-based testing applies, nothing is claimed until the check exists')}
          for p in props if p['id'] not in CHECKS]
    man = {
        'version': 1,
        'setup_cmd': '/venv/bin/python -c "import hypothesis" 2>/dev/null || /venv/bin/pip install --no-index --find-links /opt/veriftools/wheels hypothesis',
        'hooks': {'guard': 'GEOPHIRES_X_VERIF', 'enable': 'no source hooks: checks import /repo/src from the working tree in fresh worker processes and wrap Model.Calculate at run time (gxv/worker.py) to snapshot the model between Calculate() and PrintOutputs(); GEOPHIRES_X_VERIF=1 is set in workers but no repository code reads it',
                  'baseline_off_cmd': 'cd /repo && /venv/bin/python -m pytest -ra -q -p no:cacheprovider --timeout=900 --continue-on-collection-errors',
                  'source_commits': [], 'add_only': True},
        'engines': [{'name': 'gxv', 'path': '/verif/gxv', 'serves_properties': sorted(CHECKS), 'kind_free_text': 'Hypothesis-driven generated-input search sharded over a 16-process pool, with finite enumerations where the domain is small; collect-then-shrink; known-findings matcher'}],
        'checks': checks, 'not_applicable': na,
        'notes': 'All checks: ./check <ID> [quick|thorough]; VERIF_SEED selects the Hypothesis seeds; exit 0 held / 1 VIOLATION / 2 HARNESS-ERROR. known_findings.json lists recorded genuine defects (open) and repaired ones (fixed).',
    }
    json.dump(man, open(os.path.join(HERE, 'MANIFEST.json'), 'w'), indent=1)
if __name__ == '__main__':
    main()
