"""Monte Carlo driver helpers shared by C13 and C14: settings generation, running MC_GeoPHIRES3.main in a subprocess with a
chosen worker count (os.cpu_count patched in that process only - no repository change), strict parsing of the result file."""
import json
import os
import re
import subprocess
import sys

from hypothesis import strategies as st

from . import gen, sim, SRC_DIR

RUNNER = r'''
import sys, os, json
sys.path.insert(0, %(src)r)
os.environ['MPLBACKEND'] = 'Agg'
import logging; logging.disable(logging.CRITICAL)
w = int(sys.argv[1])
os.cpu_count = lambda: w
try:
    os.process_cpu_count = lambda: w
except Exception:
    pass
import warnings; warnings.simplefilter('ignore')
from geophires_monte_carlo import MC_GeoPHIRES3
_succ = os.environ.get('GXV_MC_SUCCESS_LOG')
if _succ:
    # harness-side observation (inherited by the forked workers): one byte per simulation that returned a result
    def _counted(fn):
        def call(*a, **k):
            r = fn(*a, **k)
            fd = os.open(_succ, os.O_WRONLY | os.O_APPEND | os.O_CREAT)
            try:
                os.write(fd, b'1')
            finally:
                os.close(fd)
            return r
        return call
    MC_GeoPHIRES3.GeophiresXClient.get_geophires_result = _counted(MC_GeoPHIRES3.GeophiresXClient.get_geophires_result)
    MC_GeoPHIRES3.HipRaXClient.get_hip_ra_result = _counted(MC_GeoPHIRES3.HipRaXClient.get_hip_ra_result)
_slow = os.environ.get('GXV_MC_SLOW_WRITES')
if _slow:
    # injected schedule fault (harness-side, inherited by the forked workers): the row append is made non-atomic - written in
    # k pieces, flushed after each, with a pause in between - as on a slow or network file system.  Only the writer's own
    # mutual exclusion can then keep rows whole.
    import time
    _k, _ms = (int(x) for x in _slow.split(','))
    class _SlowFile:
        def __init__(self, f): self._f = f
        def write(self, t):
            n = max(1, -(-len(t) // _k))
            for i in range(0, len(t), n):
                self._f.write(t[i:i + n]); self._f.flush()
                time.sleep(_ms * (1 + (os.getpid() + i) %% 3) / 1000.0)
            return len(t)
        def __getattr__(self, a): return getattr(self._f, a)
    _Base = MC_GeoPHIRES3.Locker
    class _SlowLocker(_Base):
        def __enter__(self):
            acquired, code, fd = _Base.__enter__(self)
            return acquired, code, (_SlowFile(fd) if fd is not None else None)
    MC_GeoPHIRES3.Locker = _SlowLocker
_prel = os.environ.get('GXV_MC_PRELUDE')
if _prel:
    # history: an earlier Monte Carlo request in this same process, on the same base-input path with other content (and a '#'
    # mean taken from it); its files are removed and the base input rewritten before the run under test
    import glob
    P = json.load(open(_prel))
    open(sys.argv[3], 'w').write(P['base'])
    open(sys.argv[4] + '.prelude', 'w').write(P['settings'])
    try:
        MC_GeoPHIRES3.main(command_line_args=[sys.argv[2], sys.argv[3], sys.argv[4] + '.prelude', sys.argv[5]])
    except BaseException:
        pass
    for f in glob.glob(os.path.splitext(sys.argv[5])[0] + '*'):
        os.remove(f)
    if _succ and os.path.exists(_succ):
        os.remove(_succ)
    open(sys.argv[3], 'w').write(P['real_base'])
res = {'ok': True}
try:
    MC_GeoPHIRES3.main(command_line_args=sys.argv[2:])
except BaseException as e:
    res = {'ok': False, 'error': type(e).__name__ + ': ' + str(e)[:300]}
print('GXVJSON' + json.dumps(res))
'''

HIP_BASE = [['Reservoir Temperature', '250.0'], ['Rejection Temperature', '60.0'], ['Reservoir Porosity', '10.0'],
            ['Reservoir Area', '55.0'], ['Reservoir Thickness', '0.25'], ['Reservoir Life Cycle', '25']]
GEO_BASE = gen.merge(gen.RES4, gen.ELEC(2), gen.ECON['1'], [['Plant Lifetime', '10'], ['Time steps per year', '2']])

# (parameter, valid lo, valid hi, typical lo, typical hi)
HIP_INPUTS = [('Reservoir Temperature', 50, 1000, 120, 300), ('Rejection Temperature', 0.1, 200, 10, 90),
              ('Reservoir Porosity', 0, 100, 2, 40), ('Reservoir Area', 0, 10000, 10, 500), ('Reservoir Thickness', 0, 10000, 0.05, 2),
              ('Recoverable Fluid Factor', 0, 1, 0.1, 0.9)]
GEO_INPUTS = [('Gradient 1', 0, 500, 30, 90), ('Utilization Factor', 0.1, 1, 0.5, 0.99), ('Ambient Temperature', -50, 50, 5, 30),
              ('Production Flow Rate per Well', 1, 500, 20, 100), ('Injection Temperature', 0, 200, 30, 80),
              ('Drawdown Parameter', 0, 0.2, 0.00001, 0.00005), ('Circulation Pump Efficiency', 0.1, 1, 0.5, 0.95)]
HIP_OUTPUTS = ['Producible Heat (reservoir)', 'Producible Electricity (reservoir)', 'Stored Heat (reservoir)', 'Reservoir Volume (reservoir)']
GEO_OUTPUTS = ['Average Net Electricity Production', 'Average Production Temperature', 'Electricity breakeven price',
               'Total capital costs', 'Average Annual Total Electricity Generation']


@st.composite
def settings(draw, program=None, fault_mix=False, max_iter=60):
    prog = program or draw(st.sampled_from(['GEO', 'HIP', 'HIP']))
    pool = HIP_INPUTS if prog == 'HIP' else GEO_INPUTS
    k = draw(st.integers(1, min(5, len(pool))))
    chosen = draw(st.permutations(pool))[:k]
    inputs = []
    for name, vlo, vhi, lo, hi in chosen:
        dist = draw(st.sampled_from(['uniform', 'normal', 'triangular', 'lognormal'] if lo > 0 else ['uniform', 'normal', 'triangular']))
        a = draw(gen.nice_floats(lo, lo + (hi - lo) * 0.4))
        b = draw(gen.nice_floats(lo + (hi - lo) * 0.6, hi))
        if dist == 'uniform':
            inputs.append([name, 'uniform', a, b])
        elif dist == 'normal':
            mu = (a + b) / 2
            sd = min(mu - vlo, vhi - mu, (b - a)) / 12.0  # +-6 sigma inside the valid range: every iteration succeeds
            inputs.append([name, 'normal', mu, max(sd, 1e-9)])
        elif dist == 'triangular':
            inputs.append([name, 'triangular', a, (a + b) / 2, b])
        else:
            import math
            mu = math.log((a + b) / 2)
            sg = min(math.log(vhi) - mu if vhi > 0 else 1, 0.6) / 8.0
            inputs.append([name, 'lognormal', mu, max(min(sg, (math.log(b) - math.log(a)) / 8.0), 1e-6)])
    fault = None
    if fault_mix:
        # one input whose distribution straddles a validity bound with controlled probability: a subset of iterations fails
        name, vlo, vhi, lo, hi = ('Reservoir Temperature', 50, 1000, 120, 300) if prog == 'HIP' else ('Utilization Factor', 0.1, 1, 0.5, 0.99)
        inputs = [i for i in inputs if i[0] != name]
        p_fail = draw(st.sampled_from([0.2, 0.5, 0.8]))
        width = (vhi - lo) * 0.5
        inputs.append([name, 'uniform', vhi - width * (1 - p_fail), vhi + width * p_fail])
        fault = {'name': name, 'valid_max': vhi, 'p_fail': p_fail}
    outs_pool = HIP_OUTPUTS if prog == 'HIP' else GEO_OUTPUTS
    outputs = draw(st.permutations(outs_pool))[:draw(st.integers(1, 3))]
    iters = draw(st.one_of(st.integers(10, max_iter), st.integers(1, 12)))
    workers = draw(st.sampled_from([16, 3, 33, 2, 5, 1]))
    if draw(st.integers(0, 4)) == 0 and prog == 'HIP':
        inputs.append(['Reservoir Life Cycle', 'binomial', draw(st.integers(40, 100)), draw(gen.nice_floats(0.5, 0.9))])  # P(draw == 0) < 1e-12: the sample 0 would be an invalid life cycle
    elif not fault_mix and draw(st.integers(0, 7)) == 0:
        # discrete inputs only: distinct successful iterations may legitimately leave identical rows - each still has its row
        inputs = [['Reservoir Life Cycle', 'binomial', draw(st.integers(40, 100)), draw(gen.nice_floats(0.5, 0.9))]] if prog == 'HIP' else \
            [['Plant Lifetime', 'binomial', draw(st.integers(40, 80)), draw(gen.nice_floats(0.4, 0.6))]]
    return {'program': prog, 'inputs': inputs, 'outputs': list(outputs), 'iterations': iters, 'workers': workers, 'fault': fault,
            'final_newline': draw(st.integers(0, 5)) != 0}


def settings_text(s):
    lines = []
    for i in s['inputs']:
        lines.append('INPUT, ' + i[0] + ', ' + i[1] + ', ' + ', '.join(repr(float(x)) if i[1] != 'binomial' or k == 1 else str(int(x))
                                                                        for k, x in enumerate(i[2:])))
    for o in s['outputs']:
        lines.append('OUTPUT, ' + o)
    lines.append(f'ITERATIONS, {s["iterations"]}')
    return '\n'.join(lines) + '\n'


def base_text(s):
    t = sim.render(HIP_BASE if s['program'] == 'HIP' else GEO_BASE)
    return t if s.get('final_newline', True) else t[:-1]


def run_mc(s, workdir, timeout=900):
    """-> dict(ok, error, header, rows [raw lines], stats_text, json, settings)"""
    os.makedirs(workdir, exist_ok=True)
    base = os.path.join(workdir, 'base.txt')
    sett = os.path.join(workdir, 'settings.txt')
    out = os.path.join(workdir, 'MC_Result.txt')
    with open(base, 'w') as f:
        f.write(base_text(s))
    with open(sett, 'w') as f:
        f.write(settings_text(s))
    code = os.path.join(SRC_DIR, 'hip_ra_x', 'hip_ra_x.py') if s['program'] == 'HIP' else os.path.join(SRC_DIR, 'geophires_x', 'GEOPHIRESv3.py')
    env = dict(os.environ, TMPDIR=workdir, MPLBACKEND='Agg', PYTHONDONTWRITEBYTECODE='1', OMP_NUM_THREADS='1', OPENBLAS_NUM_THREADS='1')
    env.pop('PYTHONPATH', None)
    env.pop('GXV_MC_SLOW_WRITES', None)
    succ = os.path.join(workdir, 'successful_simulations.log')
    env['GXV_MC_SUCCESS_LOG'] = succ
    if s.get('slow_writes'):
        env['GXV_MC_SLOW_WRITES'] = '%d,%d' % tuple(s['slow_writes'])
    env.pop('GXV_MC_PRELUDE', None)
    if s.get('prelude'):
        real = base_text(s)
        pname, pval = s['prelude'][:2]
        piters = s['prelude'][2] if len(s['prelude']) > 2 else 2
        lines = [(f'{pname}, {pval}' if ln.split(',')[0].strip() == pname else ln) for ln in real.split('\n')]
        anchor = 'Reservoir Temperature' if s['program'] == 'HIP' else 'Gradient 1'
        pj = os.path.join(workdir, 'prelude.json')
        with open(pj, 'w') as f:
            json.dump({'base': '\n'.join(lines), 'real_base': real,
                       'settings': f'INPUT, {anchor}, normal, #, 0.5\n' + ''.join(f'OUTPUT, {o}\n' for o in s['outputs']) + f'ITERATIONS, {piters}\n'}, f)
        env['GXV_MC_PRELUDE'] = pj
    pr = subprocess.run([sys.executable, '-c', RUNNER % {'src': SRC_DIR}, str(s['workers']), code, base, sett, out], cwd=workdir,
                        env=env, capture_output=True, text=True, timeout=timeout)
    res = {'ok': False, 'error': 'no result line (rc=%s) %s' % (pr.returncode, pr.stderr[-300:])}
    for ln in pr.stdout.splitlines():
        if ln.startswith('GXVJSON'):
            res = json.loads(ln[7:])
    res['paths'] = {'base': base, 'settings': sett, 'out': out}
    res['successes'] = os.path.getsize(succ) if os.path.exists(succ) else 0
    if os.path.exists(out):
        with open(out) as f:
            lines = f.read().split('\n')
        res['header'] = lines[0] if lines else ''
        body = lines[1:]
        n_out = len(s['outputs'])
        # rows are the lines up to the first statistics heading ("<output>:")
        rows, rest = [], []
        in_stats = False
        for ln in body:
            if not in_stats and ln.strip() in [o + ':' for o in s['outputs']]:
                in_stats = True
            (rest if in_stats else rows).append(ln)
        res['rows'] = [r for r in rows if r.strip() != '']
        res['blank_rows'] = sum(1 for r in rows if r.strip() == '')
        res['stats_text'] = '\n'.join(rest)
    jp = out[:-4] + '.json'
    if os.path.exists(jp):
        try:
            with open(jp) as f:
                res['json'] = json.load(f)
        except ValueError:
            res['json'] = None
    return res


ROW_RE = None


def parse_row(line, s):
    """strict grammar: v1, ..., vk, (name:value;...;)  -> (outputs [str], inputs {name: str}) or None"""
    k = len(s['outputs'])
    m = re.fullmatch(r'(.*?), \((.*)\)', line)
    if not m:
        return None
    outs = m.group(1).split(', ')
    if len(outs) != k:
        return None
    for o in outs:
        if not re.fullmatch(r'-?[0-9][0-9,]*\.?[0-9]*(e[+-]?[0-9]+)?|-?\.[0-9]+|N/A|nan|inf|-inf', o.strip(), flags=re.I):
            return None
    body = m.group(2)
    if not body.endswith(';'):
        return None
    pairs = body[:-1].split(';')
    names = [i[0] for i in s['inputs']]
    if len(pairs) != len(names):
        return None
    vals = {}
    for nm, pair in zip(names, pairs):
        if not pair.startswith(nm + ':'):
            return None
        v = pair[len(nm) + 1:]
        try:
            float(v)
        except ValueError:
            return None
        vals[nm] = v
    return [o.strip() for o in outs], vals


def in_support(inp, v):
    name, dist = inp[0], inp[1]
    x = float(v)
    if dist == 'uniform':
        return inp[2] <= x <= inp[3]
    if dist == 'triangular':
        return inp[2] <= x <= inp[4]
    if dist == 'lognormal':
        return x > 0
    if dist == 'binomial':
        return x == int(x) and 0 <= x <= inp[2]
    return x == x and abs(x) != float('inf')
