"""Parameter metadata taken from the live ParameterDicts of a model built for a configuration family, so that
generators only produce inputs the code declares it accepts (and follow the declaration if it changes)."""
from enum import Enum

COMPONENTS = ('reserv', 'wellbores', 'surfaceplant', 'economics', 'outputs', 'addeconomics', 'sdacgteconomics',
              'addoutputs', 'sdacgtoutputs')


def _num(v):
    if isinstance(v, Enum):
        iv = getattr(v, 'int_value', None)
        return iv if iv is not None else v.value
    return v


def param_rows(model):
    """one row per (component, ParameterDict key)."""
    rows = []
    for comp in COMPONENTS:
        obj = getattr(model, comp, None)
        if obj is None or not hasattr(obj, 'ParameterDict'):
            continue
        for key, p in obj.ParameterDict.items():
            kind = type(p).__name__
            rows.append({
                'comp': comp, 'cls': type(obj).__name__, 'key': key, 'name': p.Name.strip(), 'kind': kind,
                'min': getattr(p, 'Min', None), 'max': getattr(p, 'Max', None),
                'allowable': list(getattr(p, 'AllowableRange', []) or []),
                'default': _num(getattr(p, 'DefaultValue', None)), 'value': _num(p.value),
                'required': bool(getattr(p, 'Required', False)),
                'ut': getattr(p.UnitType, 'value', str(p.UnitType)),
                'pu': getattr(p.PreferredUnits, 'value', str(p.PreferredUnits)),
                'cu': getattr(p.CurrentUnits, 'value', str(p.CurrentUnits)),
                'provided': bool(p.Provided), 'valid': bool(p.Valid),
            })
    return rows


def find_params(model, name):
    """all live Parameter objects (component, param) with this Name."""
    out = []
    for comp in COMPONENTS:
        obj = getattr(model, comp, None)
        if obj is None or not hasattr(obj, 'ParameterDict'):
            continue
        for key, p in obj.ParameterDict.items():
            if p.Name.strip() == name:
                out.append((comp, p))
    return out
