"""Coverage-guided byte fuzzing (atheris / libFuzzer) of the input-file tokenizer differential used by C12.
Run as a subprocess (libFuzzer ends the process itself):  python -m gxv.fuzz_c12 --runs N --seed S --out stats.json
The semantic oracle lives in the target: read_input_file(text) must agree with the independent reference tokenizer."""
import argparse
import json
import os
import sys
import tempfile

HERE = os.path.dirname(os.path.dirname(os.path.abspath(__file__)))
sys.path.insert(0, os.path.join(HERE, '.deps'))


def main():
    ap = argparse.ArgumentParser()
    ap.add_argument('--runs', type=int, default=100000)
    ap.add_argument('--seed', type=int, default=1)
    ap.add_argument('--out', required=True)
    ap.add_argument('--corpus', default=None)
    a = ap.parse_args()
    import atheris

    from gxv import worker, SRC_DIR
    sys.path.insert(0, SRC_DIR)
    os.environ.setdefault('MPLBACKEND', 'Agg')
    import logging
    logging.disable(logging.CRITICAL)
    with atheris.instrument_imports(include=['geophires_x.GeoPHIRESUtils']):
        import geophires_x.Model  # noqa  (Model first: circular import otherwise)
        from geophires_x.GeoPHIRESUtils import read_input_file
    from gxv.checks.c12 import ref_tokenize

    scratch = tempfile.mkdtemp(prefix='gxv-fuzz-')
    path = os.path.join(scratch, 'in.txt')
    stats = {'executions': 0, 'decoded': 0, 'nontrivial': 0, 'mismatch': None, 'samples': []}
    seen = set()

    def flush():
        tmp = a.out + '.tmp'
        with open(tmp, 'w') as f:
            json.dump(stats, f)
        os.replace(tmp, a.out)

    def target(data):
        stats['executions'] += 1
        if stats['executions'] % 2000 == 0:
            flush()
        try:
            text = data.decode('utf-8')
        except UnicodeDecodeError:
            return
        if '\x00' in text:
            return
        stats['decoded'] += 1
        with open(path, 'w', encoding='UTF-8', newline='') as f:
            f.write(text)
        dd = {}
        out, err = sys.stdout, sys.stderr
        try:
            read_input_file(dd, input_file_name=path)
        except Exception as e:  # the reader must not fail on any text file
            stats['mismatch'] = {'text': text, 'error': f'{type(e).__name__}: {e}'}
            flush()
            raise
        got = [(k, v.sValue) for k, v in dd.items()]
        want = ref_tokenize(text)
        if len(want) >= 2 and any(ch in text for ch in '#*-'):
            h = hash(text)
            if h not in seen:
                seen.add(h)
                stats['nontrivial'] += 1
                if len(stats['samples']) < 5:
                    stats['samples'].append(text[:120])
        if got != [tuple(x) for x in want]:
            stats['mismatch'] = {'text': text, 'implementation': got[:8], 'reference': want[:8]}
            flush()
            raise RuntimeError('tokenizer differential mismatch')

    corpus = a.corpus or os.path.join(scratch, 'corpus')
    os.makedirs(corpus, exist_ok=True)
    # a few small valid seeds (the empty corpus is exercised when --corpus points to an empty directory)
    if a.corpus is None:
        for i, t in enumerate(['Reservoir Depth, 3\n', '# c\nGradient 1,50, ---[deg.C/km]\r\nEnd-Use Option , 1\n', '-- x\n* y\nA,1\nA,2']):
            with open(os.path.join(corpus, f's{i}'), 'w', newline='') as f:
                f.write(t)
    flush()
    atheris.Setup([sys.argv[0], f'-runs={a.runs}', f'-seed={a.seed or 1}', '-max_len=200', '-verbosity=0', corpus], target)
    try:
        atheris.Fuzz()
    finally:
        flush()


if __name__ == '__main__':
    main()
