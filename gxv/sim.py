"""Drive one GEOPHIRES-X run through the real entry point (GEOPHIRESv3.main) inside a worker process."""
import itertools
import signal
import json
import os
import sys
import traceback
from types import SimpleNamespace

from . import worker, snapshot, EXAMPLES_DIR

_counter = itertools.count()


class RunTimeout(Exception):
    """a single run exceeded the hang guard: a harness-side bound, reported as a rejected input of type RunTimeout"""


def render(params) -> str:
    """params: list of [name, value] pairs (order and duplicates preserved) -> canonical input text."""
    return ''.join(f'{n}, {v}\n' for n, v in params)


def params_to_dict(params):
    d = {}
    for n, v in params:
        d[n] = v
    return d


def _exc_info(e):
    tb = traceback.extract_tb(e.__traceback__)
    frame = None
    for fr in reversed(tb):
        if '/geophires_x' in fr.filename or '/hip_ra' in fr.filename or '/geophires_monte_carlo' in fr.filename:
            frame = f'{os.path.basename(fr.filename)}:{fr.name}'
            break
    return {'type': type(e).__name__, 'msg': str(e)[:300], 'frame': frame}


def _drop_model_caches():
    """Reservoir.Calculate is lru_cache'd on (self, model): it never hits across runs (fresh objects) but keeps up to 1 024
    whole models alive per process - tens of GB over a thorough campaign.  Dropping it changes no behaviour."""
    try:
        from geophires_x.Reservoir import Reservoir
        from geophires_x.CylindricalReservoir import CylindricalReservoir
        for cls in (Reservoir, CylindricalReservoir):
            cc = getattr(cls.Calculate, 'cache_clear', None)
            if cc:
                cc()
    except Exception:
        pass


def run_text(text: str, want_snapshot=True, want_report=True, observer=None, cwd=None, keep_files=False,
             newline=None, timeout_s=180):
    """Write `text` to a scratch input file and call main().  Returns a SimpleNamespace:
       ok, exc (dict|None), snap (Snap|None), report (str|None), json (dict|None), paths."""
    worker.init_worker()
    import geophires_x.GEOPHIRESv3 as G

    n = next(_counter)
    d = worker.scratch_dir()
    inp = os.path.join(d, f'in{n}.txt')
    out = os.path.join(d, f'out{n}.out')
    with open(inp, 'w', encoding='UTF-8', newline=newline if newline is not None else '\n') as f:
        f.write(text)
    res = SimpleNamespace(ok=False, exc=None, snap=None, report=None, json=None, inp=inp, out=out, model=None)
    holder = {}

    def obs(model):
        holder['model'] = model
        if want_snapshot:
            holder['snap'] = snapshot.take(model)
        if observer is not None:
            observer(model)

    stash_cwd, stash_argv = os.getcwd(), sys.argv
    sys.argv = ['', inp, out]
    if cwd:
        os.chdir(cwd)
    def _on_alarm(signum, frame):
        holder['timed_out'] = True
        raise RunTimeout(f'run exceeded {timeout_s} s')

    old_handler = None
    if timeout_s:
        try:
            old_handler = signal.signal(signal.SIGALRM, _on_alarm)
            signal.setitimer(signal.ITIMER_REAL, timeout_s)
        except ValueError:  # not in the main thread
            old_handler = None
    try:
        with worker.observer(obs), worker.quiet():
            G.main(enable_geophires_logging_config=False)
        res.ok = True
    except BaseException as e:  # SystemExit is how several failure paths report
        if isinstance(e, KeyboardInterrupt):
            raise
        res.exc = _exc_info(e)
        if isinstance(e, MemoryError):  # the worker's address-space guard: treated like the hang guard (inconclusive run)
            res.exc['type'] = 'RunTimeout'
            res.exc['msg'] = 'memory guard: ' + res.exc['msg']
        if holder.get('timed_out'):  # the code under test may swallow the guard's exception and exit some other way
            res.exc = {'type': 'RunTimeout', 'msg': f'run exceeded {timeout_s} s', 'frame': res.exc.get('frame')}
    finally:
        if old_handler is not None:
            signal.setitimer(signal.ITIMER_REAL, 0)
            signal.signal(signal.SIGALRM, old_handler)
        sys.argv = stash_argv
        os.chdir(stash_cwd)
        _drop_model_caches()
    res.snap = holder.get('snap')
    res.model = holder.get('model')
    if res.ok and want_report:
        try:
            with open(out, encoding='UTF-8') as f:
                res.report = f.read()
        except OSError:
            res.report = None
        jp = out[:-4] + '.json'
        try:
            with open(jp, encoding='UTF-8') as f:
                res.json = json.load(f)
        except (OSError, ValueError):
            res.json = None
    if not keep_files:
        for p in (inp, out, out[:-4] + '.json'):
            try:
                os.remove(p)
            except OSError:
                pass
    return res


def run_params(params, **kw):
    return run_text(render(params), **kw)


def read_only(text: str):
    """Model() + read_parameters() only (the stage that decides acceptance).  Returns (model|None, exc|None)."""
    worker.init_worker()
    import geophires_x.Model as M

    n = next(_counter)
    d = worker.scratch_dir()
    inp = os.path.join(d, f'ro{n}.txt')
    with open(inp, 'w', encoding='UTF-8') as f:
        f.write(text)
    stash_cwd, stash_argv = os.getcwd(), sys.argv
    sys.argv = ['', inp, os.path.join(d, f'ro{n}.out')]
    try:
        os.chdir(os.path.dirname(os.path.abspath(M.__file__)))
        with worker.quiet() as cap:
            model = M.Model(enable_geophires_logging_config=False)
            model.read_parameters()
        model._gxv_stdout = cap.getvalue()
        return model, None
    except BaseException as e:
        if isinstance(e, (KeyboardInterrupt, MemoryError)):
            raise
        return None, _exc_info(e)
    finally:
        sys.argv = stash_argv
        os.chdir(stash_cwd)
        try:
            os.remove(inp)
        except OSError:
            pass


def load_example_params(name: str):
    """Parse an example input file with an independent, minimal reading of the documented grammar
    into [name, value] pairs (comments dropped)."""
    path = os.path.join(EXAMPLES_DIR, name if name.endswith('.txt') else name + '.txt')
    out = []
    with open(path, encoding='UTF-8') as f:
        for raw in f.read().splitlines():
            line = raw.strip()
            if not line or line.startswith('#') or line.startswith('--') or line.startswith('*'):
                continue
            parts = line.split(',')
            if len(parts) < 2:
                continue
            out.append([parts[0].strip(), parts[1].strip()])
    return out
