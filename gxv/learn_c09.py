"""One-off learner for C09's scalar line table: runs a diverse corpus on the *pinned* tree and, for every
(section, label) of the report, keeps the snapshot quantities (parameter x reduction x scale) that reproduce the printed
number in every run where the line appears.  The result (gxv/report_map.json) is committed and reviewed; the check
itself never learns.  usage: python -m gxv.learn_c09 [n_cases]"""
import json
import multiprocessing as mp
import os
import sys

import numpy as np

from . import VERIF_DIR

SCALES = [1.0, 100.0, 0.01, 1e3, 1e-3, 1e6, 1e-6, -1.0, 0.45359237e-6]  # last two: sign flip (credits), lb -> kilotonne
REDS = ['avg', 'min', 'max', 'first', 'last', 'sum']
SKIP_SECTIONS = ('PREAMBLE', 'CASE REPORT')
SNAP_SECTIONS = ('reserv', 'wellbores', 'surfaceplant', 'economics', 'addeconomics', 'sdacgteconomics')


def candidates(snap):
    """name -> value for every numeric quantity x reduction (scale applied at match time)"""
    from .snapshot import enum_int
    out = {}
    for sec in SNAP_SECTIONS:
        d = snap.get(sec)
        if not d:
            continue
        for attr, p in d.items():
            if attr == '__class__':
                continue
            v = p.value
            if isinstance(v, bool):
                continue
            if isinstance(v, (int, float, np.integer, np.floating)):
                out[f'{sec}.{attr}|scalar'] = float(v)
                continue
            iv = enum_int(v) if not isinstance(v, (list, tuple, np.ndarray, str, type(None))) else None
            if iv is not None:
                out[f'{sec}.{attr}|scalar'] = float(iv)
                continue
            if isinstance(v, (list, tuple, np.ndarray)) and len(v) > 0:
                try:
                    a = np.asarray(v, dtype=float)
                except (TypeError, ValueError):
                    continue
                if a.ndim != 1:
                    continue
                out[f'{sec}.{attr}|avg'] = float(np.average(a))
                out[f'{sec}.{attr}|min'] = float(np.min(a))
                out[f'{sec}.{attr}|max'] = float(np.max(a))
                out[f'{sec}.{attr}|first'] = float(a[0])
                out[f'{sec}.{attr}|last'] = float(a[-1])
                out[f'{sec}.{attr}|sum'] = float(np.sum(a))
                for k in range(min(len(a), 4)):
                    out[f'{sec}.{attr}|idx{k}'] = float(a[k])
    return out


def tol_of(tok):
    from .report import decimals_of, sig_digits_of, to_float
    d = decimals_of(tok)
    v = to_float(tok)
    if d is not None:
        # fixed format: half a unit in the last printed place (+ the %g case where fewer digits are shown)
        return 0.5 * 10 ** (-d) * (1 + 1e-9) + 1e-12 * abs(v or 0)
    return abs(v) * 0.5 * 10 ** (-(sig_digits_of(tok) - 1)) * (1 + 1e-9)


def match_names(cands, tok):
    from .report import to_float
    v = to_float(tok)
    if v is None:
        return set()
    if v != v:  # 'nan' printed: every NaN-valued quantity is a candidate
        return set(f'{n}|1' for n, x in cands.items() if x != x)
    names = list(cands)
    vals = np.array([cands[n] for n in names])
    tol = tol_of(tok)
    out = set()
    for s in SCALES:
        with np.errstate(all='ignore'):
            ok = np.abs(vals * s - v) <= tol
        for i in np.where(ok)[0]:
            out.add(f'{names[i]}|{s:g}')
    return out


def _work(args):
    seed, n = args
    from hypothesis import strategies as st
    from . import gen, sim, worker
    from .report import Report
    from .runner import drive
    from .checks import c09
    worker.init_worker()
    res = []

    def fn(case):
        r = sim.run_params(case['params'], want_report=True)
        if not r.ok or not r.report:
            return
        rep = Report(r.report)
        cands = candidates(r.snap)
        for sec, e in rep.entries():
            if sec in SKIP_SECTIONS or sec.startswith('TABLE:'):
                continue
            res.append((sec, e['label'], sorted(match_names(cands, e['tok'])), e['unit'], e['tok']))
    drive(c09.strategy('learn'), fn, n, seed)
    return res


def main():
    n = int(sys.argv[1]) if len(sys.argv) > 1 else 1200
    ctx = mp.get_context('fork')
    with ctx.Pool(16) as pool:
        parts = pool.map(_work, [(9000 + i, n // 16) for i in range(16)])
    keysets, units, counts, examples = {}, {}, {}, {}
    for part in parts:
        for sec, label, names, unit, tok in part:
            k = f'{sec}||{label}'
            s = set(names)
            keysets[k] = s if k not in keysets else keysets[k] & s
            units.setdefault(k, set()).add(unit)
            counts[k] = counts.get(k, 0) + 1
            examples.setdefault(k, tok)

    def pref(name):
        q, red, sc = name.split('|')
        return (0 if sc == '1' else 1, 0 if red == 'scalar' else 1, len(q), name)
    out = {}
    for k in sorted(keysets):
        c = sorted(keysets[k], key=pref)
        out[k] = {'candidates': c[:6], 'n_candidates': len(c), 'n_seen': counts[k], 'units_seen': sorted(units[k]), 'example': examples[k]}
    path = os.path.join(VERIF_DIR, 'gxv', 'report_map.json')
    with open(path, 'w') as f:
        json.dump(out, f, indent=1)
    unm = [k for k, v in out.items() if not v['candidates']]
    amb = [k for k, v in out.items() if v['n_candidates'] > 3]
    print(f'keys {len(out)} unmapped {len(unm)} ambiguous(>3) {len(amb)}')
    for k in unm:
        print('UNMAPPED', k, out[k]['n_seen'], out[k]['example'])
    for k in amb:
        print('AMBIG', k, out[k]['n_seen'], out[k]['candidates'][:4], out[k]['n_candidates'])


if __name__ == '__main__':
    main()
