"""gxv - generated-input checks for the GEOPHIRES-X properties in /verif/properties.jsonl.

The parent process (runner) never imports geophires_x; only pool workers do, and they put
${GXV_SRC:-/repo/src} first on sys.path so the current working tree is what runs.
"""
import os

VERIF_DIR = os.path.dirname(os.path.dirname(os.path.abspath(__file__)))
REPO_DIR = os.environ.get('GXV_REPO', '/repo')
SRC_DIR = os.environ.get('GXV_SRC', os.path.join(REPO_DIR, 'src'))
EXAMPLES_DIR = os.path.join(REPO_DIR, 'tests', 'examples')
