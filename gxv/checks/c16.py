"""C16 - price and incentive schedules have the documented shape (closed form), construction-year prices are zero,
ITC = rate x cost, grants / incentives / fees / tax relief move CCap / Coam by exactly their amounts."""
import itertools
import math

from hypothesis import strategies as st

from .. import gen, sim, snapshot, worker
from ..runner import drive

ID = 'C16'
LEVEL = 'exploration'
BUDGET_S = {'quick': 300, 'thorough': 1500}
RULE = ('function level: direct calls of the two schedule builders over (a) an integer grid lifetime 1..100 x escalation '
        'start 0..100 (strided) x PTC duration 0..lifetime with fixed float settings, and (b) Hypothesis floats for '
        'start/end price (incl. start > end), rate, PTC, inflation; oracle: closed form '
        'price[i] = min(start + max(0,i-esc)*rate, end) + ptc[i], ptc[i] = PTC*(1+infl)^i | PTC for i < duration else 0. '
        'Run level: paired runs (same configuration without / with incentives) and the price series of generated runs '
        'with construction years 1..14. Non-trivial = escalation starts inside the lifetime and the cap binds, or '
        '0 < duration < lifetime, or (run level) at least one incentive non-zero; distinct by argument tuple / parameter set.')
ASSUMPTIONS = ['PTC durations within 0..lifetime (the statement\'s quantifier); longer durations crash the builder and are rejected inputs',
               'heat/cooling PTC: only duration and shape are checked, not the amount (the statement does not fix the $/MMBTU -> $/kWh conversion)']


def close(a, b, rel=1e-12, abs_=1e-12):
    return math.isclose(float(a), float(b), rel_tol=rel, abs_tol=abs_)


def ref_ptc(life, duration, ptc, adjusted, infl):
    out = []
    for i in range(life):
        if i < duration:
            out.append(ptc * (1.0 + infl) ** i if adjusted else ptc)
        else:
            out.append(0.0)
    return out


def ref_price(life, start, end, esc, rate, ptc):
    out = []
    for i in range(life):
        p = start + max(0, i - esc) * rate
        if p > end:
            p = end
        out.append(p + ptc[i])
    return out


def plan(tier, seed, shards):
    specs = []
    lifes = list(range(1, 101))
    per = max(1, len(lifes) // shards + 1)
    for k in range(0, len(lifes), per):
        specs.append({'kind': 'fn-grid', 'lifes': lifes[k:k + per], 'stride': 7 if tier == 'quick' else 1,
                      'dstride': 5 if tier == 'quick' else 1})
    n_fn = 6000 if tier == 'quick' else 60000
    n_run = 45 if tier == 'quick' else 900
    for s in range(shards):
        specs.append({'kind': 'fn-hyp', 'n': n_fn, 'seed': seed * 1000 + s})
        specs.append({'kind': 'run', 'n': n_run, 'seed': seed * 1000 + 500 + s, 'tier': tier})
    return specs


def _builders():
    worker.init_worker()
    import geophires_x.Economics as E
    return E.BuildPricingModel, E.BuildPTCModel


def _fn_case(rec, args, nontrivial_hint=None):
    life, start, end, esc, rate, dur, ptc, adj, infl = args
    price_fn, ptc_fn = _builders()
    case = {'fn': 'schedules', 'args': list(args)}
    try:
        got_ptc = ptc_fn(life, dur, ptc, adj, infl)
        got = price_fn(life, start, end, esc, rate, list(got_ptc))
    except Exception as e:  # inside the quantifier (duration <= lifetime) the builders must not fail
        rec.case(case, nontrivial=True, key=case['args'])
        rec.violation('builder_raises', case, {'error': f'{type(e).__name__}: {e}'}, which='schedule')
        return
    want_ptc = ref_ptc(life, dur, ptc, adj, infl)
    want = ref_price(life, start, end, esc, rate, want_ptc)
    cap_binds = esc < life and rate > 0 and start + max(0, life - 1 - esc) * rate > end and start <= end
    nt = cap_binds or (0 < dur < life)
    labels = []
    if cap_binds:
        labels.append('cap_binds')
    if 0 < dur < life:
        labels.append('ptc_partial')
    if dur == life:
        labels.append('ptc_full_life')
    if start > end:
        labels.append('start>end')
    if adj and dur > 1:
        labels.append('ptc_inflation_adjusted')
    rec.case(case, nontrivial=nt, labels=labels, key=case['args'])
    if len(got_ptc) != life or len(got) != life:
        rec.violation('schedule_length', case, {'len_price': len(got), 'len_ptc': len(got_ptc), 'lifetime': life}, which='length')
        return
    for i in range(life):
        if not close(got_ptc[i], want_ptc[i], rel=1e-10):
            rec.violation('ptc_schedule', case, {'year': i, 'got': got_ptc[i], 'closed_form': want_ptc[i]},
                          where='inside_duration' if i < dur else 'after_duration', adjusted=adj)
            break
    for i in range(life):
        if not close(got[i], want[i], rel=1e-10):
            rec.violation('price_schedule', case, {'year': i, 'got': got[i], 'closed_form': want[i]},
                          where='before_escalation' if i < esc else 'escalating')
            break


def _run_fn_grid(spec, rec):
    for life in spec['lifes']:
        escs = sorted(set(list(range(0, 101, spec['stride'])) + [0, 1, life - 1, life, life + 1, 100]))
        durs = sorted(set(list(range(0, life + 1, spec['dstride'])) + [0, 1, life - 1, life]))
        for esc in escs:
            if esc < 0 or esc > 100:
                continue
            for dur in durs:
                if dur < 0:
                    continue
                if rec.out_of_time():
                    return
                for (start, end, rate, adj) in ((0.05, 0.12, 0.01, False), (0.09, 0.07, 0.004, True)):
                    _fn_case(rec, (life, start, end, esc, rate, dur, 0.021, adj, 0.03))


@st.composite
def fn_args(draw):
    life = draw(st.one_of(st.integers(1, 100), st.integers(1, 12)))
    start = draw(gen.nice_floats(0, 1))
    end = draw(st.one_of(gen.nice_floats(0, 2), st.just(start)))
    esc = draw(st.one_of(st.integers(0, life), st.integers(0, 100)))
    rate = draw(st.one_of(st.just(0.0), gen.nice_floats(0, 0.2)))
    dur = draw(st.integers(0, life))
    ptc = draw(gen.nice_floats(0, 0.5))
    adj = draw(st.booleans())
    infl = draw(gen.nice_floats(0, 0.2))
    return (life, start, end, esc, rate, dur, ptc, adj, infl)


INCENTIVES = [('One-time Grants Etc', 0, 20), ('Other Incentives', 0, 10), ('One-time Flat License Fees Etc', 0, 10),
              ('Annual License Fees Etc', 0, 2), ('Tax Relief Per Year', 0, 2)]


@st.composite
def run_cases(draw, tier):
    base = draw(gen.configs(reservoirs=('4', '3'), addons=0.0, costs=False, prices=True, examples=0.1))
    params = base['params']
    for n, _, _ in INCENTIVES:
        params = gen.drop_param(params, n)
    params = gen.drop_param(params, 'Investment Tax Credit Rate')
    if draw(st.integers(0, 3)) == 0:
        params = gen.merge(params, [['Total Capital Cost', gen.fmt(draw(gen.nice_floats(5, 400)))]])
    # O&M side: total given, or the components given (the fee / tax-relief amounts must move annual O&M on every path)
    k = draw(st.integers(0, 7))
    if k in (0, 1):
        params = gen.merge(params, [['Total O&M Cost', gen.fmt(draw(gen.nice_floats(0.1, 30)))]])
    elif k == 2:
        params = gen.merge(params, [['Wellfield O&M Cost', gen.fmt(draw(gen.nice_floats(0, 10)))],
                                    ['Surface Plant O&M Cost', gen.fmt(draw(gen.nice_floats(0, 10)))],
                                    ['Water Cost', gen.fmt(draw(gen.nice_floats(0, 5)))]])
    inc = []
    for n, lo, hi in INCENTIVES:
        if draw(st.integers(0, 2)) != 0:
            inc.append([n, gen.fmt(draw(gen.nice_floats(lo, hi)))])
    if draw(st.integers(0, 2)) != 0:
        inc.append(['Investment Tax Credit Rate', gen.fmt(draw(gen.nice_floats(0.01, 0.7)))])
    return {'family': base['family'], 'params': params, 'incentives': inc, 'labels': base.get('labels', [])}


def _price_series_check(rec, case, s, bad):
    e, sp = s['economics'], s['surfaceplant']
    cy, life = sp['construction_years'].value, sp['plant_lifetime'].value
    nt = False
    for prod, ptc_name, amount_checked in (('Elec', 'PTCElec', True), ('Heat', 'PTCHeat', False),
                                           ('Cooling', 'PTCCooling', False), ('Carbon', None, True)):
        series = [float(x) for x in e[f'{prod}Price'].value]
        if len(series) != cy + life:
            bad('price_series_length', {'product': prod, 'len': len(series), 'expected': cy + life}, product=prod)
            continue
        if any(x != 0.0 for x in series[:cy]):
            bad('construction_year_price_nonzero', {'product': prod, 'prefix': series[:cy]}, product=prod)
        start, end = e[f'{prod}StartPrice'].value, e[f'{prod}EndPrice'].value
        esc, rate = e[f'{prod}EscalationStart'].value, e[f'{prod}EscalationRate'].value
        base = ref_price(life, start, end, esc, rate, [0.0] * life)
        dur = e['PTCDuration'].value
        ptc_on = ptc_name is not None and e[ptc_name].provided
        if esc < life and rate > 0 and start <= end and start + max(0, life - 1 - esc) * rate > end:
            nt = True
        if ptc_on and 0 < dur < life:
            nt = True
        if ptc_on and amount_checked:
            want = ref_price(life, start, end, esc, rate,
                             ref_ptc(life, dur, e[ptc_name].value, bool(e['PTCInflationAdjusted'].value), e['RINFL'].value))
        else:
            want = base
        for i in range(life):
            got = series[cy + i]
            if ptc_on and not amount_checked:
                add = got - base[i]
                if i >= dur and not close(add, 0.0, abs_=1e-12):
                    bad('ptc_after_duration', {'product': prod, 'year': i, 'addition': add, 'duration': dur}, product=prod)
                    break
                if i < dur and e[ptc_name].value > 0 and not add > 0:
                    bad('ptc_missing_inside_duration', {'product': prod, 'year': i, 'addition': add, 'duration': dur}, product=prod)
                    break
            elif not close(got, want[i], rel=1e-10):
                bad('run_price_schedule', {'product': prod, 'year': i, 'got': got, 'closed_form': want[i], 'duration': dur,
                                           'lifetime': life}, product=prod)
                break
    return nt


def _eval_run(case, rec):
    r0 = sim.run_params(case['params'], want_report=False)
    if not r0.ok or r0.snap['misc']['economics_class'] != 'Economics':
        rec.case(case, nontrivial=False, labels=['rejected' if not r0.ok else 'excluded_non_standard_economics'])
        return
    sig = {}

    def bad(clause, detail, **extra):
        rec.violation(clause, {k: case[k] for k in ('family', 'params', 'incentives')}, detail, **sig, **extra)

    nt = _price_series_check(rec, case, r0.snap, bad)
    labels = ['run_level'] + (['price_nontrivial'] if nt else [])
    inc = case.get('incentives') or []
    if inc:
        r1 = sim.run_params(gen.merge(case['params'], inc), want_report=False)
        if not r1.ok:
            rec.case(case, nontrivial=False, labels=['rejected_with_incentives'])
            return
        e0, e1 = r0.snap['economics'], r1.snap['economics']
        d = {n: float(v) for n, v in inc}
        pre = e0['CCap'].value  # no ITC/grants/fees in the base run: this is the pre-credit cost
        rate = d.get('Investment Tax Credit Rate', 0.0)
        itc = rate * pre
        want_ccap = pre - itc + d.get('One-time Flat License Fees Etc', 0.0) - d.get('Other Incentives', 0.0) - \
            d.get('One-time Grants Etc', 0.0)
        want_coam = e0['Coam'].value + d.get('Annual License Fees Etc', 0.0) - d.get('Tax Relief Per Year', 0.0)
        if rate and not close(e1['RITCValue'].value, itc, rel=1e-9, abs_=1e-9):
            bad('itc_not_rate_times_cost', {'RITCValue': e1['RITCValue'].value, 'rate': rate, 'cost_without_incentives': pre,
                                            'expected': itc})
        if not close(e1['CCap'].value, want_ccap, rel=1e-9, abs_=1e-9):
            bad('capex_incentive_delta', {'CCap_with': e1['CCap'].value, 'CCap_without': pre, 'expected_with': want_ccap,
                                          'incentives': inc})
        if not close(e1['Coam'].value, want_coam, rel=1e-9, abs_=1e-9):
            bad('opex_incentive_delta', {'Coam_with': e1['Coam'].value, 'Coam_without': e0['Coam'].value,
                                         'expected_with': want_coam, 'incentives': inc})
        labels.append('paired_incentives')
        if rate and len(inc) > 1:
            labels.append('itc_with_other_incentives')
        nt = True
    rec.case(case, nontrivial=nt, labels=labels, key=[case['params'], inc],
             sample={'family': case['family'], 'incentives': inc, 'n_params': len(case['params'])})


def run_shard(spec, rec):
    if spec['kind'] == 'fn-grid':
        _run_fn_grid(spec, rec)
    elif spec['kind'] == 'fn-hyp':
        def fn(args):
            if rec.out_of_time():
                return
            _fn_case(rec, args)
        drive(fn_args(), fn, spec['n'], spec['seed'])
    else:
        def fn(case):
            if rec.out_of_time():
                return
            _eval_run(case, rec)
        drive(run_cases(spec['tier']), fn, spec['n'], spec['seed'])


def evaluate(case, rec):
    if case.get('fn') == 'schedules':
        _fn_case(rec, tuple(case['args']))
    else:
        _eval_run(case, rec)


def shrink_candidates(case):
    if 'params' in case:
        for i in range(len(case['params'])):
            c2 = dict(case)
            c2['params'] = case['params'][:i] + case['params'][i + 1:]
            yield c2
        for i in range(len(case.get('incentives') or [])):
            c2 = dict(case)
            c2['incentives'] = case['incentives'][:i] + case['incentives'][i + 1:]
            yield c2
