"""C17 - HIP-RA-X: volumes are the stated porosity fractions, stored heat = rock + fluid, available <= stored,
producible <= available; extensive results scale exactly with area / thickness (intensive ones unchanged);
inputs written in other listed units give the same results."""
import math
import os
import sys

from hypothesis import strategies as st

from .. import gen, sim, worker
from ..runner import drive

ID = 'C17'
LEVEL = 'exploration'
BUDGET_S = {'quick': 240, 'thorough': 1500}
RULE = ('Hypothesis inputs for HIP-RA-X in-process (HIP_RA_X object through its own file reader): temperatures, porosity '
        '(incl. < 1 %), area, thickness, life cycle, rock heat capacity / density, recoverable factors, depth and pressure '
        'provided or derived, fluid density / heat capacity given or derived, all inside their declared ranges. Oracle: '
        'additive identities and orderings on one run; metamorphic pairs area x k and thickness x k (extensive outputs x k, '
        'per-area / per-volume / percentage / specific outputs unchanged, rel 1e-9); metamorphic unit pairs from an '
        'independent hand-written conversion table (degF, degK, m, ft, mile, m**2, mi**2, kPa, bar, psi, ...). Non-trivial = '
        'accepted case with k outside [0.99,1.01] or a unit pair with a non-identity conversion; distinct by input set.')
ASSUMPTIONS = ['cases where the water-property backend refuses the state (super-critical etc.) are rejected inputs, counted',
               "'Mass of Reservoir (fluid)' is overwritten by the produced-fluid mass in the method; it is extensive either way"]

BASE = [['Reservoir Temperature', '250.0'], ['Rejection Temperature', '60.0'], ['Reservoir Porosity', '10.0'],
        ['Reservoir Area', '55.0'], ['Reservoir Thickness', '0.25'], ['Reservoir Life Cycle', '25']]

EXTENSIVE = ['Reservoir Volume (reservoir)', 'Reservoir Volume (rock)', 'Recoverable Volume (recoverable fluid)',
             'Stored Heat (reservoir)', 'Stored Heat (rock)', 'Stored Heat (fluid)', 'Mass of Reservoir (total)',
             'Mass of Reservoir (rock)', 'Mass of Reservoir (fluid)', 'Available Heat (reservoir)',
             'Producible Heat (reservoir)', 'Producible Electricity (reservoir)']
PER_AREA = ['Producible Heat/Unit Area (reservoir)', 'Producible Electricity/Unit Area (reservoir)']
PER_VOLUME = ['Producible Heat/Unit Volume (reservoir)', 'Producible Electricity/Unit Volume (reservoir)']
INTENSIVE = ['Specific Enthalpy (reservoir)', 'Specific Enthalpy (rock)', 'Specific Enthalpy (fluid)', 'Recovery Factor (reservoir)']

# independent conversion table: parameter -> [(unit string as the catalogue spells it, function default-unit value -> value in that unit)]
UNIT_VARIANTS = {
    'Reservoir Temperature': [('degF', lambda c: c * 9.0 / 5.0 + 32.0), ('degK', lambda c: c + 273.15), ('degC', lambda c: c)],
    'Rejection Temperature': [('degF', lambda c: c * 9.0 / 5.0 + 32.0), ('degK', lambda c: c + 273.15)],
    'Reservoir Thickness': [('meter', lambda km: km * 1000.0), ('ft', lambda km: km * 1000.0 / 0.3048),
                            ('mile', lambda km: km / 1.609344), ('kilometer', lambda km: km)],
    'Reservoir Depth': [('meter', lambda km: km * 1000.0), ('ft', lambda km: km * 1000.0 / 0.3048)],
    'Reservoir Area': [('m**2', lambda a: a * 1e6), ('mi**2', lambda a: a / 1.609344 ** 2), ('ft**2', lambda a: a * 1e6 / 0.3048 ** 2)],
    'Reservoir Pressure': [('kPa', lambda m: m * 1000.0), ('bar', lambda m: m * 10.0), ('psi', lambda m: m * 1e6 / 6894.757293168361),
                           ('Pa', lambda m: m * 1e6)],
    'Density Of Reservoir Rock': [('kg/m**3', lambda d: d / 1e9)],
    'Reservoir Life Cycle': [('yr', lambda y: y)],
}


RANGES = {'Reservoir Temperature': (50, 1000), 'Rejection Temperature': (0.1, 200), 'Reservoir Thickness': (0.0, 10000.0),
          'Reservoir Depth': (0.001, 15.0), 'Reservoir Area': (0.0, 10000.0), 'Reservoir Pressure': (0.0, 10000.0),
          'Density Of Reservoir Rock': (1e11, 1e13)}


def plan(tier, seed, shards):
    n = 12000 if tier == 'quick' else 300000
    return [{'kind': 'hyp', 'n': n // shards, 'seed': seed * 1000 + s} for s in range(shards)]


@st.composite
def cases(draw):
    t_rej = draw(st.one_of(gen.nice_floats(10, 120), gen.nice_floats(0.1, 200)))
    t_res = draw(st.one_of(gen.nice_floats(max(50, t_rej + 5), 370), gen.nice_floats(50, 1000)))
    p = [['Reservoir Temperature', gen.fmt(t_res)], ['Rejection Temperature', gen.fmt(t_rej)],
         ['Reservoir Porosity', gen.fmt(draw(st.one_of(gen.nice_floats(1, 40), gen.nice_floats(0, 100), gen.nice_floats(0.01, 1))))],
         ['Reservoir Area', gen.fmt(draw(st.one_of(gen.nice_floats(1, 500), gen.nice_floats(0.001, 10000))))],
         ['Reservoir Thickness', gen.fmt(draw(st.one_of(gen.nice_floats(0.05, 3), gen.nice_floats(0.001, 100))))],
         ['Reservoir Life Cycle', str(draw(st.integers(1, 100)))]]
    if draw(st.booleans()):
        p.append(['Rock Heat Capacity', gen.fmt(draw(gen.nice_floats(1e12, 5e12)))])
    if draw(st.booleans()):
        p.append(['Density Of Reservoir Rock', gen.fmt(draw(gen.nice_floats(1.5e12, 3.5e12)))])
    if draw(st.integers(0, 2)) == 0:
        p.append(['Density Of Reservoir Fluid', gen.fmt(draw(gen.nice_floats(5e11, 1.1e12)))])
    if draw(st.integers(0, 2)) == 0:
        p.append(['Fluid Specific Heat Capacity', gen.fmt(draw(gen.nice_floats(3.5, 6)))])
    if draw(st.booleans()):
        p.append(['Recoverable Fluid Factor', gen.fmt(draw(gen.nice_floats(0.01, 1)))])
    if draw(st.booleans()):
        p.append(['Recoverable Heat from Rock', gen.fmt(draw(gen.nice_floats(0.01, 1)))])
    if draw(st.integers(0, 2)) == 0:
        p.append(['Reservoir Depth', gen.fmt(draw(gen.nice_floats(0.3, 10)))])
    if draw(st.integers(0, 2)) == 0:
        p.append(['Reservoir Pressure', gen.fmt(draw(gen.nice_floats(5, 100)))])
    mode = draw(st.sampled_from(['area', 'thickness', 'unit', 'unit']))
    if mode == 'unit':
        names = [n for n, _ in p if n in UNIT_VARIANTS]
        name = draw(st.sampled_from(names))
        unit, _ = draw(st.sampled_from(UNIT_VARIANTS[name]))
        return {'params': p, 'mode': 'unit', 'name': name, 'unit': unit}
    k = draw(st.one_of(gen.nice_floats(0.05, 20), st.sampled_from([2.0, 0.5, 3.0, 10.0])))
    return {'params': p, 'mode': mode, 'k': k, 'via_client': draw(st.integers(0, 11)) == 0}


def run_hip(params):
    """-> (outputs dict name -> value, inputs dict, exc)"""
    worker.init_worker()
    from hip_ra_x import hip_ra_x

    d = worker.scratch_dir()
    path = os.path.join(d, f'hip17-{os.getpid()}.txt')
    with open(path, 'w') as f:
        f.write(sim.render(params))
    stash_cwd, stash_argv = os.getcwd(), sys.argv
    sys.argv = ['', path, os.path.join(d, 'hip17.out')]
    try:
        with worker.quiet():
            m = hip_ra_x.HIP_RA_X(enable_hip_ra_logging_config=False)
            m.read_parameters()
            m.Calculate()
        outs = {k: p.value for k, p in m.OutputParameterDict.items() if isinstance(p.value, (int, float))}
        ins = {k: p.value for k, p in m.ParameterDict.items()}
        return outs, ins, None
    except BaseException as e:
        if isinstance(e, (KeyboardInterrupt, MemoryError)):
            raise
        return None, None, sim._exc_info(e)
    finally:
        sys.argv = stash_argv
        os.chdir(stash_cwd)


_CLIENT = {}


def run_hip_client(params):
    """the same request through one long-lived HipRaXClient per worker, always from the same (rewritten) input file: the way a
    sizing study edits one file in place -> {label: value} as parsed from the report, or None"""
    worker.init_worker()
    from hip_ra_x import HipRaXClient
    from hip_ra import HipRaInputParameters
    if 'c' not in _CLIENT:
        _CLIENT['c'] = HipRaXClient()
    path = os.path.join(worker.scratch_dir(), f'hip17-client-{os.getpid()}.txt')
    with open(path, 'w') as f:
        f.write(sim.render(params))
    stash_cwd, stash_argv = os.getcwd(), sys.argv
    try:
        with worker.quiet():
            res = _CLIENT['c'].get_hip_ra_result(HipRaInputParameters(path))
        out = {k: v['value'] for k, v in res.result.items()}
        try:
            os.remove(str(res.output_file_path))
        except OSError:
            pass
        return out
    except BaseException as e:
        if isinstance(e, (KeyboardInterrupt, MemoryError)):
            raise
        return None
    finally:
        sys.argv = stash_argv
        os.chdir(stash_cwd)


def close(a, b, rel=1e-9):
    return math.isclose(float(a), float(b), rel_tol=rel, abs_tol=1e-300)


def evaluate(case, rec):
    p = case['params']
    o, ins, e = run_hip(p)
    if e:
        rec.case(case, nontrivial=False, labels=['rejected', 'rejected:' + e['type']])
        return
    pd = dict((a, float(b)) for a, b in p)

    def bad(clause, detail, **extra):
        rec.violation(clause, case, detail, **extra)

    if any(isinstance(v, float) and (v != v or abs(v) == float('inf')) for v in o.values()):
        rec.case(case, nontrivial=False, labels=['non_finite_outputs'])
        return
    # ---- identities on one run
    V = pd['Reservoir Area'] * pd['Reservoir Thickness']
    phi = pd['Reservoir Porosity'] / 100.0
    frec = pd.get('Recoverable Fluid Factor', 0.5)
    if not close(o['Reservoir Volume (reservoir)'], V):
        bad('reservoir_volume', {'reported': o['Reservoir Volume (reservoir)'], 'area_x_thickness': V})
    if not close(o['Reservoir Volume (rock)'], V * (1 - phi)):
        bad('rock_volume_fraction', {'reported': o['Reservoir Volume (rock)'], 'expected': V * (1 - phi), 'porosity_pct': pd['Reservoir Porosity']})
    if not close(o['Recoverable Volume (recoverable fluid)'], V * phi * frec):
        bad('fluid_volume_fraction', {'reported': o['Recoverable Volume (recoverable fluid)'], 'expected': V * phi * frec,
                                      'porosity_pct': pd['Reservoir Porosity'], 'recoverable_fluid_factor': frec})
    if not close(o['Stored Heat (reservoir)'], o['Stored Heat (rock)'] + o['Stored Heat (fluid)']):
        bad('stored_heat_sum', {k: o[k] for k in ('Stored Heat (reservoir)', 'Stored Heat (rock)', 'Stored Heat (fluid)')})
    forward = pd['Reservoir Temperature'] > pd['Rejection Temperature'] and o['Stored Heat (reservoir)'] > 0
    if forward:
        if o['Available Heat (reservoir)'] > o['Stored Heat (reservoir)'] * (1 + 1e-12):
            bad('available_exceeds_stored', {'available': o['Available Heat (reservoir)'], 'stored': o['Stored Heat (reservoir)']})
        if o['Producible Heat (reservoir)'] > o['Available Heat (reservoir)'] * (1 + 1e-12):
            bad('producible_exceeds_available', {'producible': o['Producible Heat (reservoir)'], 'available': o['Available Heat (reservoir)']})
    labels = ['forward' if forward else 'rejection_not_below_reservoir_temperature', f'mode:{case["mode"]}']
    if pd['Reservoir Porosity'] < 1:
        labels.append('porosity<1%')
    if 'Reservoir Depth' in pd or 'Reservoir Pressure' in pd:
        labels.append('depth_or_pressure_provided')
    # ---- metamorphic
    nt = False
    if case['mode'] in ('area', 'thickness'):
        name = 'Reservoir Area' if case['mode'] == 'area' else 'Reservoir Thickness'
        k = case['k']
        v2 = pd[name] * k
        lo, hi = 0.0, 10000.0
        if not (lo < v2 <= hi):
            labels.append('scaled_value_out_of_range')
        else:
            sv2 = gen.fmt(v2)
            k_eff = float(sv2) / pd[name]
            o2, _, e2 = run_hip(gen.set_param(p, name, sv2))
            if e2:
                bad('scaled_run_rejected', {'param': name, 'k': k, 'error': e2}, param=name)
            else:
                nt = not (0.99 <= k <= 1.01)
                if case.get('via_client'):
                    # the pair again through the client (one input file edited in place): what it reports must be the run's
                    # own numbers at the printed precision
                    labels.append('pair_through_client')
                    for which, prm, want in (('base', p, o), ('scaled', gen.set_param(p, name, sv2), o2)):
                        c = run_hip_client(prm)
                        if c is None:
                            bad('client_run_fails', {'which': which}, which=which)
                            break
                        for nme in ('Reservoir Volume (reservoir)', 'Stored Heat (reservoir)', 'Producible Heat (reservoir)'):
                            # printed with 2 decimals (volume) / 3 significant digits (heat)
                            same = abs(c.get(nme, 0.0) - want[nme]) <= 0.0051 if nme.startswith('Reservoir Volume') else \
                                close(c.get(nme, float('nan')), want[nme], rel=6e-3)
                            if nme in c and want.get(nme) and not same:
                                bad('client_reports_other_run', {'which': which, 'output': nme, 'client': c[nme], 'direct_run': want[nme],
                                                                 'k': k_eff, 'scaled_input': name}, which=which)
                                break
                groups = [(EXTENSIVE, k_eff)] + [(INTENSIVE, 1.0), (PER_VOLUME, 1.0)]
                groups.append((PER_AREA, 1.0 if case['mode'] == 'area' else k_eff))
                for names, factor in groups:
                    for nme in names:
                        if nme not in o or o[nme] == 0:
                            continue
                        if not close(o2[nme], o[nme] * factor):
                            bad('scaling', {'output': nme, 'base': o[nme], 'scaled_run': o2[nme], 'expected_factor': factor,
                                            'observed_factor': o2[nme] / o[nme], 'scaled_input': name, 'k': k_eff},
                                output=nme, scaled=case['mode'])
    else:
        name, unit = case['name'], case['unit']
        rng = RANGES.get(name)
        if rng and (pd[name] <= rng[0] * (1 + 1e-9) + 1e-12 or pd[name] >= rng[1] * (1 - 1e-9)):
            # a value sitting on a declared bound can leave the range by one rounding of the conversion: not a unit question
            rec.case(case, nontrivial=False, labels=labels + ['unit_variant_skipped_value_on_bound'])
            return
        fn = dict(UNIT_VARIANTS[name])[unit]
        conv = fn(pd[name])
        sval = gen.fmt(conv)
        o2, _, e2 = run_hip(gen.set_param(p, name, f'{sval} {unit}'))
        identity = close(conv, pd[name], rel=1e-12)
        nt = not identity
        labels.append(f'unit:{name}:{unit}')
        if e2:
            bad('unit_variant_rejected', {'param': name, 'written_as': f'{sval} {unit}', 'error': e2}, param=name, unit=unit,
                error=e2['type'])
        else:
            # allow for the rounding of the written value (repr round-trips exactly) and of the conversion: rel 1e-7
            for nme, v in o.items():
                if v == 0 or not isinstance(v, float):
                    continue
                if not close(o2.get(nme, float('nan')), v, rel=1e-7):
                    bad('unit_variant_changes_result', {'param': name, 'written_as': f'{sval} {unit}', 'output': nme, 'default_unit_run': v,
                                                        'variant_run': o2.get(nme)}, param=name, unit=unit)
                    break
    rec.case(case, nontrivial=nt and forward, labels=labels, key=case,
             sample={'mode': case['mode'], 'k': case.get('k'), 'unit': case.get('unit'), 'name': case.get('name'), 'params': p})


def run_shard(spec, rec):
    def fn(c):
        if rec.out_of_time():
            return
        evaluate(c, rec)
    drive(cases(), fn, spec['n'], spec['seed'])


def shrink_candidates(case):
    for i in range(len(case['params'])):
        if case['params'][i][0] in ('Reservoir Temperature', 'Rejection Temperature', 'Reservoir Porosity', 'Reservoir Area',
                                    'Reservoir Thickness', 'Reservoir Life Cycle') or case['params'][i][0] == case.get('name'):
            continue
        c2 = dict(case)
        c2['params'] = case['params'][:i] + case['params'][i + 1:]
        yield c2
