"""C02 - energy flows balance at every time step and over every year."""
import math

import numpy as np

from .. import gen, sim, snapshot
from ..runner import drive

ID = 'C02'
LEVEL = 'exploration'
BUDGET_S = {'quick': 240, 'thorough': 1500}
RULE = ('Hypothesis configs() without add-ons / S-DAC-GT (both rewrite the annual series afterwards): all plant types incl. '
        'heat pump, absorption chiller, district heating (repository demand CSV), all six cogeneration variants, reservoir '
        'models {3,4 (+1,2 thorough)} and example-seeded cases, lifetime 1..100, time steps per year 1..100 '
        '(lifetime x steps <= 2000). Oracle: per-step identities recomputed from the snapshot (heat extracted, net '
        'electricity, end-use efficiency / COP relations, cogeneration heat split, district daily balance) and per-year '
        'figures re-integrated with an independently coded trapezoid over the model\'s own time grid x utilization factor '
        '(rel 1e-9). Non-trivial = accepted run with lifetime >= 2, time steps per year >= 2, time-varying extracted heat '
        'and pumping power > 0 at some step; distinct by full parameter set.')
ASSUMPTIONS = ['final injection temperature (the plant may lower the input value) is the one used in the balance',
               'standard surface plants only (SUTRA/AGS plants excluded, counted)']
REL = 1e-9


def strategy(tier):
    return gen.configs(reservoirs=('4', '3'), slow_fraction=0.0 if tier == 'quick' else 0.03, addons=0.0, prices=False,
                       costs=False, examples=0.15)


def plan(tier, seed, shards):
    n = 1000 if tier == "quick" else 40000
    return [{'kind': 'hyp', 'n': n // shards, 'seed': seed * 1000 + s, 'tier': tier} for s in range(shards)]


def run_shard(spec, rec):
    def fn(case):
        if rec.out_of_time():
            return
        evaluate(case, rec)

    drive(strategy(spec['tier']), fn, spec['n'], spec['seed'])


def arr(v):
    return np.asarray(v, dtype=float)


def allclose(a, b, rel=REL, abs_=1e-9):
    a, b = arr(a), arr(b)
    if a.shape != b.shape:
        return False
    return bool(np.all(np.abs(a - b) <= abs_ + rel * np.maximum(np.abs(a), np.abs(b))))


def first_bad(a, b, rel=REL, abs_=1e-9):
    a, b = arr(a), arr(b)
    if a.shape != b.shape:
        return {'shape_reported': list(a.shape), 'shape_expected': list(b.shape)}
    bad = np.where(~(np.abs(a - b) <= abs_ + rel * np.maximum(np.abs(a), np.abs(b))))[0]
    i = int(bad[0])
    return {'index': i, 'reported': float(a[i]), 'expected': float(b[i]), 'n_bad': int(len(bad)), 'n': int(len(a))}


def yearly(series, t, life, tspy, uf):
    """Energy per year in kWh: the samples [i*tspy, (i+1)*tspy] of a power series (MW) are the year-i slice, which by
    definition spans one year (the report's time labels are not used: the grid has lifetime*tspy points, so the last
    slice is one sample short and is spread over its year; a single remaining sample is extended by one step of the
    previous slope, as the repository's own unit test documents).  Trapezoid, x 8760 h x 1000 x utilization factor."""
    series = [float(x) for x in series]
    out = []
    for i in range(life):
        lo, hi = i * tspy, (i + 1) * tspy
        pts = series[lo:hi + 1]
        if len(pts) == 1:
            step = (series[lo] - series[lo - 1]) if lo - 1 > 0 else 0.0
            pts = [pts[0], pts[0] + step]
        n = len(pts) - 1
        tot = 0.0
        for k in range(n):
            tot += 0.5 * (pts[k] + pts[k + 1]) * (1.0 / n)
        u = uf[i] if hasattr(uf, '__len__') else uf
        out.append(tot * 365.0 * 24.0 * 1000.0 * u)
    return np.asarray(out)


def _tinj_lowered(case, tinj):
    v = dict((a, b) for a, b in case['params']).get('Injection Temperature')
    try:
        return v is not None and float(v.split()[0]) - tinj > 1e-9 and len(v.split()) == 1
    except ValueError:
        return False


def evaluate(case, rec):
    r = sim.run_params(case['params'], want_report=False)
    labels = list(case.get('labels', []))
    if not r.ok:
        rec.case(case, nontrivial=False, labels=['rejected', 'rejected:' + str(r.exc['type'])])
        return
    s = r.snap
    sp, wb, rs, ec = s['surfaceplant'], s['wellbores'], s['reserv'], s['economics']
    spc = s['misc']['surfaceplant_class']
    if spc in ('SurfacePlantSUTRA', 'SurfacePlantAGS', 'SurfacePlant') or ec['DoAddOnCalculations'].value or \
            ec['DoSDACGTCalculations'].value or s['misc']['reserv_class'].startswith(('SBT', 'SUTRA')):
        rec.case(case, nontrivial=False, labels=['excluded_special_plant_or_addons'])
        return
    enduse = snapshot.enum_int(sp['enduse_option'].value)
    plant = snapshot.enum_int(sp['plant_type'].value)
    life, tspy = sp['plant_lifetime'].value, ec['timestepsperyear'].value
    sig = dict(plantclass=spc, enduse=str(enduse))

    def bad(clause, detail, **extra):
        rec.violation(clause, {'family': case.get('family'), 'params': case['params']}, detail, **sig, **extra)

    t = arr(rs['timevector'].value)
    tprod = arr(wb['ProducedTemperature'].value)
    tinj = float(wb['Tinj'].value)
    nprod, flow, cp = wb['nprod'].value, wb['prodwellflowrate'].value, rs['cpwater'].value
    he = arr(sp['HeatExtracted'].value)
    pump = arr(wb['PumpingPower'].value)
    n = len(t)
    eta = sp['enduse_efficiency_factor'].value
    # ---- heat extracted
    want_he = nprod * flow * cp * (tprod - tinj) / 1e6
    if not allclose(he, want_he):
        bad('heat_extracted', first_bad(he, want_he) | {'Tinj_final': tinj})
    # ---- electricity side
    has_elec = enduse != 2
    if has_elec:
        el, net = arr(sp['ElectricityProduced'].value), arr(sp['NetElectricityProduced'].value)
        if not allclose(net, el - pump):
            bad('net_electricity', first_bad(net, el - pump))
        fle = arr(sp['FirstLawEfficiency'].value)
        hp_ = arr(sp['HeatProduced'].value) if enduse != 1 else np.zeros(n)
        if hp_.shape != (n,):
            hp_ = np.zeros(n)
        ok = np.isfinite(fle) & (fle != 0) & np.isfinite(net)
        if ok.any() and fle.shape == (n,):
            lhs = hp_[ok] / eta + net[ok] / fle[ok]
            if not allclose(lhs, he[ok], rel=1e-8):
                bad('heat_split_direct_use_plus_power_cycle', first_bad(lhs, he[ok], rel=1e-8))
    else:
        hp_ = arr(sp['HeatProduced'].value)
        if plant == 6:
            cop = sp['heat_pump_cop'].value
            pel = arr(sp['heat_pump_electricity_used'].value)
            if not allclose(pel, he / (cop - 1.0)):
                bad('heat_pump_electricity', first_bad(pel, he / (cop - 1.0)))
            if not allclose(hp_ / eta, he + pel):
                bad('heat_pump_heat_balance', first_bad(hp_ / eta, he + pel))
        elif plant == 5:
            cop = sp['absorption_chiller_cop'].value
            cool = arr(sp['cooling_produced'].value)
            if not allclose(cool, he * cop * eta):
                bad('chiller_cooling', first_bad(cool, he * cop * eta))
        else:
            if not allclose(hp_, he * eta):
                bad('useful_heat_efficiency', first_bad(hp_, he * eta))
        if plant == 7:
            demand = arr(sp['daily_heating_demand'].value)
            geo, gas = arr(sp['dh_geothermal_heating'].value), arr(sp['dh_natural_gas_heating'].value)
            if len(geo) == life * 365 and len(demand) >= 365:
                dem = np.tile(demand[:365] / 24.0, life)
                if not allclose(geo + gas, dem):
                    bad('district_supply_equals_demand', first_bad(geo + gas, dem))
                if (gas < -1e-12).any():
                    bad('district_peaking_negative', {'min': float(gas.min())})
                # geothermal supply never exceeds what the wells deliver (interpolated useful heat at that day)
                times = np.repeat(np.arange(life), 365) + np.tile(np.arange(365) / 365.0, life)
                xp = np.arange(len(hp_)) / float(tspy)  # sample k sits at k/tspy years (see yearly())
                avail = np.interp(times, xp, hp_)
                if (geo > avail + 1e-9 * np.abs(avail) + 1e-9).any():
                    k = int(np.argmax(geo - avail))
                    bad('district_geothermal_exceeds_available', {'day_index': k, 'geothermal': float(geo[k]), 'available': float(avail[k])})
            else:
                bad('district_series_length', {'len_geothermal': len(geo), 'expected': life * 365})
    # ---- annual figures
    uf = arr(sp['util_factor_array'].value) if plant == 7 and enduse == 2 else float(sp['utilization_factor'].value)
    annual = [('HeatkWhExtracted', he), ('PumpingkWh', pump)]
    if has_elec:
        annual += [('TotalkWhProduced', sp['ElectricityProduced'].value), ('NetkWhProduced', sp['NetElectricityProduced'].value)]
    if enduse != 1:
        annual.append(('HeatkWhProduced', sp['HeatProduced'].value))
    if enduse == 2 and plant == 5:
        annual.append(('cooling_kWh_Produced', sp['cooling_produced'].value))
    if enduse == 2 and plant == 6:
        annual.append(('heat_pump_electricity_kwh_used', sp['heat_pump_electricity_used'].value))
    for name, series in annual:
        series = arr(series)
        if series.shape != (n,):
            bad('series_length', {'series': name, 'len': int(series.size), 'time_grid': n})
            continue
        want = yearly(series, t, life, tspy, uf)
        got = arr(sp[name].value)
        if not allclose(got, want, abs_=1e-6):
            bad('annual_integral', first_bad(got, want, abs_=1e-6) | {'series': name, 'lifetime': life, 'tspy': tspy}, series=name)
    # ---- remaining reservoir heat
    init = float(rs['InitialReservoirHeatContent'].value)
    want_rem = init - np.cumsum(arr(sp['HeatkWhExtracted'].value)) * 3.6e6 / 1e15
    if not allclose(sp['RemainingReservoirHeatContent'].value, want_rem, abs_=1e-12):
        bad('remaining_reservoir_heat', first_bad(sp['RemainingReservoirHeatContent'].value, want_rem, abs_=1e-12))
    # ---- classification
    varies = he.size > 1 and (he.max() - he.min()) > 1e-9 * max(abs(he).max(), 1e-30)
    nontrivial = life >= 2 and tspy >= 2 and varies and (pump > 0).any()
    labels += [f'plant:{spc}', f'enduse:{enduse}', 'pumping>0' if (pump > 0).any() else 'pumping=0',
               'tinj_lowered_by_plant' if _tinj_lowered(case, tinj) else 'tinj_as_input']
    if has_elec and (arr(sp['NetElectricityProduced'].value) < 0).any():
        labels.append('net_electricity_negative_somewhere')
    rec.case(case, nontrivial=nontrivial, labels=labels, key=case['params'],
             sample={'family': case.get('family'), 'params': case['params'], 'observed': {'lifetime': life, 'tspy': tspy,
                     'HeatExtracted_first_last': [float(he[0]), float(he[-1])]}})
