"""C05 - bottom-hole temperature follows the segment gradients down to the (Tmax-capped) depth; reservoir temperature
starts at BHT; production temperature respects the drawdown limit and restarts at each redrilling; models 3/4 are
bounded by BHT and non-increasing between redrillings."""
import math

import numpy as np
from hypothesis import strategies as st

from .. import gen, sim, snapshot, worker
from ..runner import drive

ID = 'C05'
LEVEL = 'exploration'
BUDGET_S = {'quick': 240, 'thorough': 1500}
RULE = ('(A) reservoir level: Hypothesis layouts of 1..4 segments (gradients on both sides of the degC/m-degC/km '
        'convention threshold incl. zero, thicknesses over the declared range incl. the 100 = metres point, depth '
        '0.1..15 km, Tmax 50..600, surface temperature -50..50) x reservoir models {4,3 (+1,2 with few steps)}; the '
        'reservoir module is run on the read model and Trock / depth / Tres[0] are compared with an independent '
        'piecewise-linear geotherm walk. (B) run level: configs() with Maximum Drawdown in (0,1], checking the drawdown '
        'limit, periodic restart at each reported redrilling, and (models 3/4) Tres <= BHT and non-increasing inside a '
        'cycle; model 4 without Ramey additionally against the closed-form un-tiled profile. Non-trivial = >= 2 '
        'segments with the depth below the first interface, or the Tmax cap active, or redrilling > 0.')
ASSUMPTIONS = ['the upper-bound / never-rises clause presumes heat extraction (injection temperature below bottom-hole temperature); '
               'layouts whose BHT is not above the injection temperature are counted and skipped for that clause only',
               'input heuristics are input grammar: bare gradient <= 1 is degC/m else degC/km; bare thickness < 100 is km else m; '
               'a zero gradient is floored at 1e-6 degC/m',
               'monotonicity / upper bound only for models 3 and 4 (as the property states)']


def plan(tier, seed, shards):
    nA = 6000 if tier == 'quick' else 100000
    nB = 700 if tier == 'quick' else 16000
    specs = []
    for s in range(shards):
        specs.append({'kind': 'walk', 'n': nA // shards, 'seed': seed * 1000 + s, 'tier': tier})
        specs.append({'kind': 'run', 'n': nB // shards, 'seed': seed * 1000 + 300 + s, 'tier': tier})
    return specs


# ------------------------------------------------------------------ reference geotherm

def ref_walk(tsurf, grads_in, thick_in, numseg, depth_km, tmax):
    """-> (BHT, effective depth in m, info)"""
    g = []
    for x in grads_in[:numseg]:
        x = x / 1000.0 if x > 1.0 else x
        g.append(max(x, 1e-6) if x < 1e-6 else x)
    th = []
    for x in thick_in[:numseg - 1]:
        th.append(x * 1000.0 if x < 100.0 else x)
    depth = depth_km * 1000.0
    # depth at which Tmax is reached
    z, temp, zmax = 0.0, tsurf, None
    for i in range(numseg):
        top_t = temp
        if i < numseg - 1:
            bot_t = top_t + g[i] * th[i]
            if bot_t > tmax:
                zmax = z + (tmax - top_t) / g[i]
                break
            z += th[i]
            temp = bot_t
        else:
            zmax = z + (tmax - top_t) / g[i]
    capped = depth > zmax
    d = min(depth, zmax)
    # temperature at d
    z, temp = 0.0, tsurf
    seg = 0
    for i in range(numseg):
        if i < numseg - 1 and d > z + th[i]:
            temp += g[i] * th[i]
            z += th[i]
            seg = i + 1
        else:
            temp += g[i] * (d - z)
            seg = i
            break
    return temp, d, {'capped': capped, 'segment_of_depth': seg, 'zmax': zmax}


@st.composite
def layouts(draw, tier):
    numseg = draw(st.integers(1, 4))
    grads, thick = [], []
    for i in range(numseg):
        side = draw(st.sampled_from(['per_km', 'per_km', 'per_m', 'zero', 'threshold']))
        if side == 'per_km':
            v = draw(st.one_of(gen.nice_floats(5, 150), gen.nice_floats(1.0001, 500)))
        elif side == 'per_m':
            v = draw(st.one_of(gen.nice_floats(0.005, 0.15), gen.nice_floats(1e-5, 1.0)))
        elif side == 'zero':
            v = 0.0
        else:
            v = draw(st.sampled_from([1.0, 1.0000000000000002, 0.9999999999999999]))
        grads.append(v)
    for i in range(numseg - 1):
        v = draw(st.one_of(gen.nice_floats(0.1, 4), gen.nice_floats(0.01, 100), st.sampled_from([100.0, 0.01, 99.99])))
        thick.append(v)
    depth = draw(st.one_of(gen.nice_floats(0.5, 7), gen.nice_floats(0.1, 15)))
    tmax = draw(st.one_of(gen.nice_floats(50, 600), st.just(400.0)))
    tsurf = draw(st.one_of(gen.nice_floats(0, 30), gen.nice_floats(-50, 50)))
    model = draw(st.sampled_from(['4', '4', '3'] + (['1', '2'] if tier == 'thorough' or draw(st.integers(0, 30)) == 0 else [])))
    return {'numseg': numseg, 'grads': grads, 'thick': thick, 'depth': depth, 'tmax': tmax, 'tsurf': tsurf, 'model': model}


def _layout_params(c):
    base = gen.RESERVOIRS[c['model']]
    blk = [['Number of Segments', str(c['numseg'])], ['Reservoir Depth', gen.fmt(c['depth'])],
           ['Maximum Temperature', gen.fmt(c['tmax'])], ['Surface Temperature', gen.fmt(c['tsurf'])]]
    for i, g in enumerate(c['grads']):
        blk.append([f'Gradient {i + 1}', gen.fmt(g)])
    for i, t in enumerate(c['thick']):
        blk.append([f'Thickness {i + 1}', gen.fmt(t)])
    p = gen.merge(base, gen.ELEC(2), gen.ECON['1'], blk)
    if c['model'] in ('1', '2'):
        p = gen.merge(p, [['Plant Lifetime', '4'], ['Time steps per year', '2']])
    return p


_PRELUDE = {'numseg': 4, 'grads': [60.0, 45.0, 35.0, 30.0], 'thick': [0.8, 0.9, 1.1], 'depth': 4.5, 'tmax': 400.0, 'tsurf': 15.0, 'model': '4'}


def _eval_walk(c, rec):
    # an unrelated four-segment project is read and calculated first in the same process: the case then carries its own history
    # (a single replayed case shows state that survives from one project into the next)
    if c is not _PRELUDE:
        pm, pe = sim.read_only(sim.render(_layout_params(_PRELUDE)))
        if pe is None:
            try:
                with worker.quiet():
                    pm.reserv.Calculate(pm)
            except BaseException as ex:
                if isinstance(ex, (KeyboardInterrupt, MemoryError)):
                    raise
    params = _layout_params(c)
    case = {'kind': 'walk', 'layout': c, 'params': params}
    m, e = sim.read_only(sim.render(params))
    if e:
        rec.case(case, nontrivial=False, labels=['rejected_at_read'])
        return
    try:
        with worker.quiet():
            m.reserv.Calculate(m)
    except BaseException as ex:
        if isinstance(ex, (KeyboardInterrupt, MemoryError)):
            raise
        rec.case(case, nontrivial=False, labels=['rejected_in_reservoir:' + type(ex).__name__])
        return
    try:
        want_t, want_d, info = ref_walk(c['tsurf'], c['grads'], c['thick'], c['numseg'], c['depth'], c['tmax'])
    except ZeroDivisionError:
        rec.case(case, nontrivial=False, labels=['reference_undefined'])
        return
    if want_d <= 0:
        rec.case(case, nontrivial=False, labels=['degenerate_nonpositive_depth'])
        return
    trock = float(m.reserv.Trock.value)
    depth_m = float(m.reserv.depth.quantity().to('m').magnitude)
    sig = dict(numseg=str(c['numseg']), capped=str(info['capped']))
    labels = [f'numseg:{c["numseg"]}', f'model:{c["model"]}', 'cap_active' if info['capped'] else 'cap_inactive',
              f'depth_in_segment:{info["segment_of_depth"]}']
    if any(g == 0 for g in c['grads']):
        labels.append('zero_gradient')
    if any(0 < g <= 1 for g in c['grads']):
        labels.append('gradient_per_m_side')
    if any(t >= 100 for t in c['thick']):
        labels.append('thickness_metres_side')
    nt = (c['numseg'] >= 2 and info['segment_of_depth'] >= 1) or info['capped']
    rec.case(case, nontrivial=nt, labels=labels, key=c, sample={'layout': c, 'BHT': trock, 'depth_m': depth_m})
    tol_t = 1e-6 + 1e-9 * abs(want_t)
    if not abs(trock - want_t) <= tol_t:
        rec.violation('bottom_hole_temperature', case, {'Trock': trock, 'reference': want_t, 'reference_depth_m': want_d,
                                                        'reported_depth_m': depth_m, **info}, **sig)
    if not abs(depth_m - want_d) <= 1e-6 + 1e-9 * want_d:
        rec.violation('effective_depth', case, {'reported_depth_m': depth_m, 'reference_depth_m': want_d, **info}, **sig)
    if trock > c['tmax'] + 1e-6:
        rec.violation('bht_exceeds_tmax', case, {'Trock': trock, 'Tmax': c['tmax']}, **sig)
    tres = np.asarray(m.reserv.Tresoutput.value, dtype=float)
    if tres.size and not abs(tres[0] - trock) <= 1e-6:
        rec.violation('tres_does_not_start_at_bht', case, {'Tres0': float(tres[0]), 'Trock': trock}, model=c['model'])
    tinj = float(m.wellbores.Tinj.value)  # after Reservoir.Calculate: already includes the injection-wellbore temperature gain
    if c['model'] in ('3', '4') and tres.size and not trock > tinj:
        rec.count('walk_injection_not_below_bht_bound_clause_skipped')
    if c['model'] in ('3', '4') and tres.size and trock > tinj:
        if (tres > trock + 1e-9).any():
            rec.violation('tres_exceeds_bht', case, {'max_Tres': float(tres.max()), 'Trock': trock}, model=c['model'])
        if (np.diff(tres) > 1e-9).any():
            k = int(np.argmax(np.diff(tres)))
            rec.violation('tres_rises', case, {'index': k, 'Tres_k': float(tres[k]), 'Tres_k1': float(tres[k + 1])}, model=c['model'])


# ------------------------------------------------------------------ run level (drawdown limit, redrilling)

@st.composite
def run_cases(draw, tier):
    base = draw(gen.configs(reservoirs=('4', '3'), slow_fraction=0.0 if tier == 'quick' else 0.05, addons=0.0, costs=False,
                            prices=False, examples=0.0))
    params = base['params']
    md = draw(st.one_of(gen.nice_floats(0.005, 0.3), gen.nice_floats(0.001, 1.0), st.just(1.0)))
    params = gen.merge(params, [['Maximum Drawdown', gen.fmt(md)]])
    pd = dict((a, b) for a, b in params)
    if pd.get('Reservoir Model') == '4':
        params = gen.merge(params, [['Drawdown Parameter', gen.fmt(draw(gen.nice_floats(0.001, 0.04)))]])
    if draw(st.booleans()):
        params = gen.merge(params, [['Ramey Production Wellbore Model', '0'],
                                    ['Production Wellbore Temperature Drop', gen.fmt(draw(gen.nice_floats(0, 10)))]])
    return {'kind': 'run', 'family': base['family'], 'params': params, 'labels': base.get('labels', [])}


def _eval_run(case, rec):
    r = sim.run_params(case['params'], want_report=False)
    if not r.ok:
        rec.case(case, nontrivial=False, labels=['rejected', 'rejected:' + str(r.exc['type'])])
        return
    s = r.snap
    rs, wb = s['reserv'], s['wellbores']
    model = snapshot.enum_int(rs['resoption'].value)
    if model not in (1, 2, 3, 4):
        rec.case(case, nontrivial=False, labels=['excluded_other_reservoir_model'])
        return
    tp = np.asarray(wb['ProducedTemperature'].value, dtype=float)
    tres = np.asarray(rs['Tresoutput'].value, dtype=float)
    trock = float(rs['Trock'].value)
    md = float(wb['maxdrawdown'].value)
    R = int(wb['redrill'].value or 0)
    n = len(tp)
    sig = dict(model=str(model))

    def bad(clause, detail, **extra):
        rec.violation(clause, {'kind': 'run', 'family': case.get('family'), 'params': case['params']}, detail, **sig, **extra)

    tinj_final = float(wb['Tinj'].value)
    try:
        tinj_in0 = float(dict((a, b) for a, b in case['params']).get('Injection Temperature', str(tinj_final)).split()[0])
    except ValueError:
        tinj_in0 = tinj_final
    limit = (1.0 - md) * tp[0]
    if (tp < limit - 1e-9 * abs(limit) - 1e-12).any():
        k = int(np.argmax(tp < limit - 1e-9 * abs(limit) - 1e-12))
        bad('production_temperature_below_drawdown_limit', {'index': k, 'T': float(tp[k]), 'limit': float(limit), 'redrill': R, 'n': n})
    if not abs(tres[0] - trock) <= 1e-6:
        bad('tres_does_not_start_at_bht', {'Tres0': float(tres[0]), 'Trock': trock})
    period = None
    if R > 0:
        # the profile must restart from its beginning at each of the R reported redrillings: periodic with a period P
        # such that floor(n / P) == R
        cands = [P for P in range(1, n) if n // P == R]
        for P in cands:
            idx = np.arange(n) % P
            if np.array_equal(tp, tp[idx]) and np.array_equal(tres, tres[idx]):
                period = P
                break
        if period is None:
            bad('no_restart_at_reported_redrilling', {'redrill': R, 'n': n, 'candidate_periods': cands[:6],
                                                      'T_first': [float(x) for x in tp[:6]]})
    ramey = bool(wb['rameyoptionprod'].value)
    if model == 4 and not ramey:
        # closed form of the un-tiled percentage-drawdown profile: the first index below the limit defines the cycle
        t = np.asarray(rs['timevector'].value, dtype=float)
        tinj_in = float(dict((a, b) for a, b in case['params']).get('Injection Temperature', wb['Tinj'].value).split()[0])
        drop = float(wb['tempdropprod'].value)
        dp = float(rs['drawdp'].value)
        # the reservoir module runs before the surface plant may lower the injection temperature: it sees the input value
        untiled = (1 - dp * t) * (trock - tinj_in) + tinj_in - drop
        if abs(untiled[0] - tp[0]) <= 1e-9 and trock > tinj_in:
            below = untiled < (1 - md) * untiled[0]
            first = int(np.argmax(below)) if below.any() else 0
            want_R = n // first if first > 0 else 0
            if want_R != R:
                bad('redrilling_count', {'reported': R, 'from_closed_form': want_R, 'first_index_below_limit': first, 'n': n})
            elif R > 0 and not np.allclose(tp, np.tile(untiled[:first], R + 1)[:n], rtol=1e-12, atol=1e-9):
                bad('restart_period', {'period_found': period, 'first_index_below_limit': first})
    # the reservoir models are handed the injection temperature plus the injection-wellbore temperature gain: that is the
    # water which enters the rock
    gain = float(wb['tempgaininj'].value or 0.0)
    heating = not trock > max(tinj_final, tinj_in0 + max(gain, 0.0), tinj_in0)
    if heating:
        rec.count('run_injection_not_below_bht_bound_clause_skipped')
    if model in (3, 4) and not heating:
        if (tres > trock + 1e-9).any():
            bad('tres_exceeds_bht', {'max_Tres': float(tres.max()), 'Trock': trock})
        P = period or n
        d = np.diff(tres)
        inside = (np.arange(1, n) % P) != 0
        if (d[inside] > 1e-9).any():
            k = int(np.where(inside & (d > 1e-9))[0][0])
            bad('tres_rises_between_redrillings', {'index': k, 'Tres_k': float(tres[k]), 'Tres_k1': float(tres[k + 1]), 'period': P})
    labels = [f'model:{model}', f'redrill:{min(R, 3)}{"+" if R > 3 else ""}', 'ramey' if ramey else 'fixed_drop']
    rec.case(case, nontrivial=R > 0, labels=labels, key=case['params'],
             sample={'family': case.get('family'), 'maxdrawdown': md, 'redrill': R, 'n_steps': n, 'model': model})


def run_shard(spec, rec):
    if spec['kind'] == 'walk':
        def fn(c):
            if rec.out_of_time():
                return
            _eval_walk(c, rec)
        drive(layouts(spec['tier']), fn, spec['n'], spec['seed'])
    else:
        def fn(c):
            if rec.out_of_time():
                return
            _eval_run(c, rec)
        drive(run_cases(spec['tier']), fn, spec['n'], spec['seed'])


def evaluate(case, rec):
    if case.get('kind') == 'walk':
        _eval_walk(case['layout'], rec)
    else:
        _eval_run(case, rec)


NO_SHRINK = True
