"""C20 - CLI, Python client and the direct pipeline give the same report; the CLI writes report + JSON where asked
(or HDR.out / HDR.json in the starting directory) and exits non-zero without a report when the simulation fails."""
import json
import os
import shutil
import subprocess
import sys
import tempfile

from hypothesis import strategies as st

from .. import gen, sim, worker, SRC_DIR
from ..runner import drive
from . import c08

ID = 'C20'
LEVEL = 'exploration'
BUDGET_S = {'quick': 400, 'thorough': 1800}
RULE = ('Hypothesis cases: input content (generated configs() from all fast families, the C08 pool incl. SBT / profile-file / '
        'multi-segment contents, and failing contents: out-of-range, unknown option, missing profile file (bare sys.exit), '
        'division by zero, missing demand file) x output argument {absent, relative, relative in a sub-directory, absolute, through a symbolic link followed by ".."; '
        'file names with several dots and spaces} x starting working directory. Each case runs `python -m geophires_x` in a '
        'subprocess, a long-lived caching client in-process (sometimes followed by a pair of same-line-set requests with a repeated parameter in opposite order) and the entry point directly. Oracle: the three reports are identical after '
        'removing version/date/time lines; the CLI creates exactly <out> and <out stem>.json at the requested place (default '
        'HDR.out / HDR.json in the starting directory) and nothing else in the watched directories; a failing input gives a '
        'non-zero exit status and no report at the target. Each case also carries a prelude of 0-2 earlier requests served by the same process. Monte Carlo kind: a 2-5 iteration run (two thirds of them sampling a parameter whose name is a prefix of another one set in the base file); up to 3 rows are re-run as base input + recorded values through `python -m geophires_x` and the tracked outputs must be those of the row. Non-trivial = non-default output location or a failing input.')
ASSUMPTIONS = ['Monte Carlo embedded runs: a few rows of small GEOPHIRES runs are re-run through the CLI here; row replay in depth (through the client, HIP-RA-X, fault mixes) is C14',
               'the CLI subprocess imports the tree under test through PYTHONPATH']

STRIP = c08.strip_report
_SHARED = {}


def shared_client():
    """one long-lived client with its default settings (caching on) per worker process, as an application would hold"""
    if 'c' not in _SHARED:
        from geophires_x_client import GeophiresXClient
        _SHARED['c'] = GeophiresXClient()
    return _SHARED['c']


def _dup_pair(text):
    """two inputs holding the same set of lines with one repeated parameter in opposite order"""
    lines = [ln for ln in text.splitlines() if ln.strip()]
    for i, ln in enumerate(lines):
        parts = ln.split(', ', 1)
        if len(parts) == 2 and parts[0] in ('Gradient 1', 'Production Flow Rate per Well', 'Reservoir Depth', 'Utilization Factor'):
            try:
                v = float(parts[1])
            except ValueError:
                continue
            alt = f'{parts[0]}, {gen.fmt(round(v * 0.9, 6))}'
            rest = lines[:i] + lines[i + 1:]
            return '\n'.join([ln] + rest + [alt]) + '\n', '\n'.join([alt] + rest + [ln]) + '\n'
    return None


def plan(tier, seed, shards):
    n = 5 if tier == 'quick' else 95
    specs = [{'kind': 'cli', 'n': n, 'seed': seed * 1000 + s} for s in range(shards)]
    specs += [{'kind': 'mc', 'n': 2 if tier == 'quick' else 8, 'seed': seed * 1000 + 500 + s} for s in range(shards if tier != 'quick' else 12)]
    return specs


@st.composite
def cases(draw):
    ok, bad = c08.contents()
    src = draw(st.sampled_from(['gen', 'gen', 'pool', 'bad']))
    if src == 'gen':
        c = draw(gen.configs(reservoirs=('4', '3'), addons=0.1, examples=0.2, sdac=0.1))
        text, expect_ok, label = sim.render(c['params']), None, 'generated'
    elif src == 'pool':
        i = draw(st.integers(0, len(ok) - 1))
        text, expect_ok, label = ok[i], True, f'pool{i}'
    else:
        i = draw(st.integers(0, len(bad) - 1))
        text, expect_ok, label = bad[i], False, f'failing{i}'
    out_kind = draw(st.sampled_from(['absent', 'relative', 'relative_subdir', 'absolute', 'absolute', 'via_symlink_dotdot']))
    name = draw(st.sampled_from(['result.out', 'case.v2.out', 'sweep_grad_45.5.out', 'my result.out', 'r.txt', 'noext', 'HDR.out', 'a.b.c.d']))
    # what the long-lived in-process client and pipeline were asked before: part of the case, so that one case replays alone
    prelude = [ok[i] for i in draw(st.lists(st.integers(0, len(ok) - 1), min_size=0, max_size=2))]
    return {'kind': 'cli', 'text': text, 'label': label, 'expect_ok': expect_ok, 'out_kind': out_kind, 'out_name': name,
            'cwd_depth': draw(st.integers(0, 2)), 'dup_pair': draw(st.integers(0, 2)) == 0, 'prelude': prelude}


@st.composite
def mc_cases(draw):
    from .. import mc
    from . import c14
    s = draw(mc.settings(program='GEO', fault_mix=False, max_iter=12))
    s['iterations'] = draw(st.integers(2, 5))
    s['workers'] = draw(st.sampled_from([1, 2, 4]))
    s['extra_base'] = []
    if draw(st.integers(0, 2)) != 0:
        name, lo, hi, extra, out = draw(st.sampled_from(c14.PREFIX_PARAMS))
        s['inputs'] = [i for i in s['inputs'] if i[0] != name][:2] + [[name, 'uniform', lo, hi]]
        s['extra_base'] = extra
        if out not in s['outputs']:
            s['outputs'] = [out] + s['outputs'][:2]
    s['kind'] = 'mc'
    return s


def evaluate_mc(s, rec):
    """runs embedded in the Monte Carlo driver against the command line: base input + the row's recorded values through
    `python -m geophires_x` must print the outputs the row holds"""
    from .. import mc
    from . import c14
    worker.init_worker()
    d = tempfile.mkdtemp(prefix='c20mc-', dir=worker.scratch_dir())
    case = {k: s.get(k) for k in ('kind', 'program', 'inputs', 'outputs', 'iterations', 'workers', 'fault', 'final_newline', 'extra_base')}
    try:
        orig_base = mc.base_text

        def base_text(ss):
            t = orig_base(dict(ss, final_newline=True)) + sim.render(ss.get('extra_base') or [])
            return t if ss.get('final_newline', True) else t[:-1]
        mc.base_text = base_text
        try:
            r = mc.run_mc(s, d)
            base = base_text(dict(s, final_newline=True))
        finally:
            mc.base_text = orig_base
        good = [p for p in (mc.parse_row(x, s) for x in r.get('rows', [])) if p]
        rec.case(case, nontrivial=bool(good), labels=['src:monte_carlo_embedded', 'prefix_named_parameter' if s.get('extra_base') else 'plain'],
                 key=case, sample={'settings': mc.settings_text(s).splitlines(), 'rows': len(good)})
        if not good:
            rec.violation('monte_carlo_run_gives_no_rows', case, {'error': str(r.get('error'))[:300]}, out_kind='mc')
            return
        env = dict(os.environ, PYTHONPATH=SRC_DIR, MPLBACKEND='Agg', PYTHONDONTWRITEBYTECODE='1', TMPDIR=d)
        for k, (outs, vals) in enumerate(good[:3]):
            inp = os.path.join(d, f'row{k}.txt')
            with open(inp, 'w', encoding='UTF-8') as f:
                f.write(base + ''.join(f'{a}, {b}\n' for a, b in vals.items()))
            outp = os.path.join(d, f'row{k}.out')
            pr = subprocess.run([sys.executable, '-m', 'geophires_x', inp, outp], cwd=d, env=env, capture_output=True, text=True, timeout=900)
            if pr.returncode != 0 or not os.path.exists(outp):
                rec.violation('cli_fails_on_input_of_monte_carlo_row', case, {'rc': pr.returncode, 'stderr_tail': pr.stderr[-300:], 'values': vals}, out_kind='mc')
                return
            with open(outp, encoding='UTF-8') as f:
                rep = f.read()
            want = [c14.extract(rep, o) for o in s['outputs']]
            if want != outs:
                rec.violation('monte_carlo_embedded_run_differs_from_cli', case, {'row_outputs': outs, 'cli_outputs': want, 'outputs': s['outputs'],
                                                                                  'values': vals}, out_kind='mc')
                return
        rec.count('monte_carlo_rows_rerun_through_cli', min(3, len(good)))
    finally:
        shutil.rmtree(d, ignore_errors=True)


def _listing(root):
    out = set()
    for dp, dn, fn in os.walk(root):
        for f in fn:
            out.add(os.path.relpath(os.path.join(dp, f), root))
    return out


def evaluate(c, rec):
    if c.get('kind') == 'mc':
        return evaluate_mc(c, rec)
    worker.init_worker()
    from geophires_x_client import GeophiresXClient, GeophiresInputParameters
    for k, t in enumerate(c.get('prelude') or []):
        # earlier requests of the same process: through the long-lived client and through the direct pipeline
        # a path of its own for every request: the client names its report file after the input path, and a cached result
        # keeps pointing at that file
        _SHARED['n'] = _SHARED.get('n', 0) + 1
        pth = os.path.join(worker.scratch_dir(), f'c20-prelude-{os.getpid()}-{_SHARED["n"]}.txt')
        with open(pth, 'w', encoding='UTF-8') as f:
            f.write(t)
        stash = (os.getcwd(), sys.argv)
        try:
            with worker.quiet():
                shared_client().get_geophires_result(GeophiresInputParameters(from_file_path=pth))
        except BaseException as e:
            if isinstance(e, (KeyboardInterrupt, MemoryError)):
                raise
        finally:
            os.chdir(stash[0])
            sys.argv = stash[1]
            os.remove(pth)

    root = tempfile.mkdtemp(prefix='c20-', dir=worker.scratch_dir())
    try:
        start = os.path.join(root, *(['w'] + [f'd{k}' for k in range(c['cwd_depth'])]))
        os.makedirs(start)
        elsewhere = os.path.join(root, 'elsewhere')
        os.makedirs(os.path.join(elsewhere, 'sub', 'dir'))
        os.makedirs(os.path.join(start, 'sub', 'dir'))
        inp = os.path.join(root, 'inputs', 'case input.txt')
        os.makedirs(os.path.dirname(inp))
        with open(inp, 'w', encoding='UTF-8') as f:
            f.write(c['text'])
        kind, name = c['out_kind'], c['out_name']
        if kind == 'absent':
            args, target = [], os.path.join(start, 'HDR.out')
        elif kind == 'relative':
            args, target = [name], os.path.join(start, name)
        elif kind == 'relative_subdir':
            args, target = [os.path.join('sub', 'dir', name)], os.path.join(start, 'sub', 'dir', name)
        elif kind == 'via_symlink_dotdot':
            # 'current/../results/<name>' where 'current' is a symbolic link to a directory elsewhere: the operating system follows
            # the link before going up, so the file belongs next to the link's target, not next to the link (a decoy 'results'
            # directory stands there)
            os.makedirs(os.path.join(root, 'store', 'runs', 'latest'))
            os.makedirs(os.path.join(root, 'store', 'runs', 'results'))
            os.makedirs(os.path.join(start, 'results'))
            os.symlink(os.path.join(root, 'store', 'runs', 'latest'), os.path.join(start, 'current'))
            args, target = [os.path.join('current', '..', 'results', name)], os.path.join(root, 'store', 'runs', 'results', name)
        else:
            target = os.path.join(elsewhere, 'sub', 'dir', name)
            args = [target]
        stem = os.path.splitext(os.path.basename(target))[0]
        json_target = os.path.join(os.path.dirname(target), stem + '.json')
        before = _listing(root)
        # the program changes into its package directory while it runs: nothing may be left there either (report-like files only:
        # byte-code caches and logs of concurrent runs are not this property's subject)
        pkg = os.path.join(SRC_DIR, 'geophires_x')
        pkg_before = set(f for f in os.listdir(pkg) if f.lower().endswith(('.out', '.json', '.csv', '.html')))
        env = dict(os.environ, PYTHONPATH=SRC_DIR, MPLBACKEND='Agg', PYTHONDONTWRITEBYTECODE='1', TMPDIR=root)
        # relative input path too, sometimes
        inp_arg = os.path.relpath(inp, start) if c['cwd_depth'] % 2 == 0 else inp
        pr = subprocess.run([sys.executable, '-m', 'geophires_x', inp_arg] + args, cwd=start, env=env, capture_output=True, text=True, timeout=900)
        after = _listing(root)
        created = sorted(after - before)
        pkg_new = sorted(set(f for f in os.listdir(pkg) if f.lower().endswith(('.out', '.json', '.csv', '.html'))) - pkg_before)
        case = {k: c.get(k) for k in ('kind', 'text', 'label', 'expect_ok', 'out_kind', 'out_name', 'cwd_depth', 'dup_pair', 'prelude')}
        sig = dict(out_kind=kind)

        def bad(clause, detail, **extra):
            rec.violation(clause, case, detail, **sig, **extra)

        if pkg_new:
            bad('cli_leaves_file_in_package_directory', {'files': pkg_new, 'args': args}, files='+'.join(pkg_new)[:60])
            for f in pkg_new:
                try:
                    os.remove(os.path.join(pkg, f))
                except OSError:
                    pass
        # reference: direct pipeline in this process
        ref = sim.run_text(c['text'], want_report=True)
        labels = [f'out:{kind}', 'src:' + c['label'].rstrip('0123456789')]
        if c['expect_ok'] is not None and ref.ok != c['expect_ok']:
            labels.append('pool_expectation_differs')
        nt = kind != 'absent' or not ref.ok
        rec.case(case, nontrivial=nt, labels=labels + (['input_fails'] if not ref.ok else ['input_ok']) +
                 (['name_with_dots'] if name.count('.') > 1 else []), key=case,
                 sample={'label': c['label'], 'out_kind': kind, 'out_name': name, 'cli_rc': pr.returncode, 'created': created[:4]})
        rel = lambda p: os.path.relpath(p, root)
        if ref.ok:
            if pr.returncode != 0:
                bad('cli_fails_but_pipeline_succeeds', {'rc': pr.returncode, 'stderr_tail': pr.stderr[-400:]})
                return
            want_created = sorted({rel(target), rel(json_target)})
            if created != want_created:
                bad('cli_files_not_where_requested', {'created': created, 'expected': want_created, 'args': args}, name_dots=str(name.count('.')))
            if os.path.exists(target):
                with open(target, encoding='UTF-8') as f:
                    cli_report = f.read()
                if STRIP(cli_report) != STRIP(ref.report):
                    diff = [(a, b) for a, b in zip(STRIP(cli_report), STRIP(ref.report)) if a != b][:3]
                    bad('cli_report_differs_from_pipeline', {'first_differences': diff})
            if os.path.exists(json_target):
                try:
                    with open(json_target) as f:
                        cj = json.load(f)
                    if ref.json is not None and set(cj) != set(ref.json):
                        bad('cli_json_differs_from_pipeline', {'only_cli': sorted(set(cj) - set(ref.json))[:5], 'only_pipeline': sorted(set(ref.json) - set(cj))[:5]})
                except ValueError as e:
                    bad('cli_json_unreadable', {'error': str(e)})
            # client
            stash_cwd, stash_argv = os.getcwd(), sys.argv
            try:
                with worker.quiet():
                    res = shared_client().get_geophires_result(GeophiresInputParameters(from_file_path=inp))
                with open(res.output_file_path, encoding='UTF-8') as f:
                    client_report = f.read()
                if STRIP(client_report) != STRIP(ref.report):
                    diff = [(a, b) for a, b in zip(STRIP(client_report), STRIP(ref.report)) if a != b][:3]
                    bad('client_report_differs_from_pipeline', {'first_differences': diff})
                pair = _dup_pair(c['text']) if c.get('dup_pair') else None
                if pair:
                    for k, t in enumerate(pair):
                        pth = os.path.join(root, 'inputs', f'dup{k}.txt')
                        with open(pth, 'w', encoding='UTF-8') as f:
                            f.write(t)
                        refk = sim.run_text(t, want_report=True)
                        if not refk.ok:
                            break
                        with worker.quiet():
                            resk = shared_client().get_geophires_result(GeophiresInputParameters(from_file_path=pth))
                        with open(resk.output_file_path, encoding='UTF-8') as f:
                            repk = f.read()
                        if STRIP(repk) != STRIP(refk.report):
                            diff = [(a, b) for a, b in zip(STRIP(repk), STRIP(refk.report)) if a != b][:3]
                            bad('client_report_differs_from_pipeline', {'first_differences': diff, 'request': f'repeated-parameter pair #{k}'},
                                scenario='same_lines_other_order')
                            break
                    rec.label('client_repeated_parameter_pair')
            except BaseException as e:
                if isinstance(e, (KeyboardInterrupt, MemoryError)):
                    raise
                bad('client_fails_but_pipeline_succeeds', {'error': sim._exc_info(e)})
            finally:
                sys.argv = stash_argv
                os.chdir(stash_cwd)
        else:
            if pr.returncode == 0:
                bad('exit_status_zero_on_failure', {'pipeline_error': ref.exc, 'created': created, 'stdout_tail': pr.stdout[-300:]},
                    error=str(ref.exc['type']))
            if os.path.exists(target):
                bad('report_written_despite_failure', {'pipeline_error': ref.exc, 'created': created}, error=str(ref.exc['type']),
                    frame=str(ref.exc.get('frame')))
            stash_cwd, stash_argv = os.getcwd(), sys.argv
            try:
                with worker.quiet():
                    GeophiresXClient(enable_caching=False).get_geophires_result(GeophiresInputParameters(from_file_path=inp))
                bad('client_succeeds_but_pipeline_fails', {'pipeline_error': ref.exc})
            except BaseException as e:
                if isinstance(e, (KeyboardInterrupt, MemoryError)):
                    raise
            finally:
                sys.argv = stash_argv
                os.chdir(stash_cwd)
    finally:
        shutil.rmtree(root, ignore_errors=True)


def run_shard(spec, rec):
    def fn(c):
        if rec.out_of_time():
            return
        evaluate(c, rec)
    drive(mc_cases() if spec['kind'] == 'mc' else cases(), fn, spec['n'], spec['seed'])


NO_SHRINK = True
