"""C03 - capital and O&M totals are the sum of their parts; user-supplied figures are used as given;
wellfield cost = reported per-well costs x well counts (+ laterals, x stated indirect factor)."""
import math

import numpy as np
from hypothesis import strategies as st

from .. import gen, sim, snapshot
from ..runner import drive

ID = 'C03'
LEVEL = 'exploration'
BUDGET_S = {'quick': 240, 'thorough': 1500}
RULE = ('Hypothesis configs(): reservoir model {3,4 (+1,2 in thorough)} x every end-use/plant family x econ model 1-3, '
        'plus example-seeded cases, with a cost layer (each component cost independently user-fixed or correlated, '
        'adjustment factors in [0,10], totals sometimes given, ITC/grants/incentives/fees/tax relief, well-cost '
        'correlation 1..17, laterals, surface piping, Maximum Drawdown forcing redrilling). Oracle: roll-up recomputed '
        "from the run's own component outputs (rel 1e-9). Non-trivial = accepted run with at least two of: user-fixed "
        'component/total, non-unit adjustment factor, ITC/grant/incentive/fee/tax relief non-zero, redrilling > 0, '
        'laterals; distinct by full parameter set.')
ASSUMPTIONS = ['standard Economics class only (SBT/SUTRA/AGS economics assemble costs differently and are excluded, counted)',
               'a rejected run (exception from the simulator) is a rejected input, not a violation']

REL = 1e-9


def close(a, b, rel=REL, abs_=1e-12):
    return math.isclose(float(a), float(b), rel_tol=rel, abs_tol=abs_)


def strategy(tier):
    return gen.configs(reservoirs=('4', '3'), slow_fraction=0.0 if tier == 'quick' else 0.03, addons=0.1, prices=False,
                       examples=0.12)


def plan(tier, seed, shards):
    n = 1600 if tier == 'quick' else 40000
    return [{'kind': 'hyp', 'n': n // shards, 'seed': seed * 1000 + s, 'tier': tier} for s in range(shards)]


def run_shard(spec, rec):
    def fn(case):
        if rec.out_of_time():
            return
        evaluate(case, rec)

    drive(strategy(spec['tier']), fn, spec['n'], spec['seed'])


def _v(s, attr, sec='economics'):
    return s.v(sec, attr)


def evaluate(case, rec):
    r = sim.run_params(case['params'], want_report=False)
    labels = list(case.get('labels', []))
    if not r.ok:
        rec.case(case, nontrivial=False, labels=['rejected', 'rejected:' + str(r.exc['type'])])
        return
    s = r.snap
    if s['misc']['economics_class'] != 'Economics':
        rec.case(case, nontrivial=False, labels=['excluded_non_standard_economics'])
        return
    e = s['economics']
    pd = sim.params_to_dict(case['params'])
    enduse = str(snapshot.enum_int(s.v('surfaceplant', 'enduse_option')))
    plant = str(snapshot.enum_int(s.v('surfaceplant', 'plant_type')))
    sig = dict(enduse=enduse, plant=plant)
    nprod, ninj = s.v('wellbores', 'nprod'), s.v('wellbores', 'ninj')
    life = s.v('surfaceplant', 'plant_lifetime')
    redrill = s.v('wellbores', 'redrill') or 0

    def bad(clause, detail, **extra):
        rec.violation(clause, {'family': case.get('family'), 'params': case['params']}, detail, **sig, **extra)

    # ---- user-supplied components appear unchanged
    pairs = [('ccstimfixed', 'Cstim'), ('ccgathfixed', 'Cgath'), ('ccplantfixed', 'Cplant'), ('ccexplfixed', 'Cexpl'),
             ('oamplantfixed', 'Coamplant'), ('oamwellfixed', 'Coamwell'), ('oamwaterfixed', 'Coamwater')]
    n_fixed = 0
    totalcap_given = e['totalcapcost'].valid and e['totalcapcost'].provided
    totaloam_given = e['oamtotalfixed'].valid and e['oamtotalfixed'].provided
    def supplied(p):
        # judged on the input text, not on the flags the reader sets (a figure the user typed is supplied even when it equals
        # the declared default): a bare in-range number for this parameter
        if p.name not in pd:
            return p.provided and p.valid
        try:
            v = float(str(pd[p.name]).split()[0])
        except ValueError:
            return False
        if len(str(pd[p.name]).split()) > 1:
            return p.provided and p.valid  # written with a unit: C06's subject
        return float(p.min) <= v <= float(p.max) and close(v, p.value)

    for pin, pout in pairs:
        p = e[pin]
        if supplied(p):
            n_fixed += 1
            computed = True
            if pout in ('Cexpl',) and totalcap_given:
                computed = False  # not evaluated when the total is given
            if pout in ('Coamplant', 'Coamwell', 'Coamwater') and totaloam_given:
                computed = False
            if computed and not close(e[pout].value, p.value):
                bad('user_component_not_used', {'input': p.name, 'supplied': p.value, 'reported': e[pout].value}, comp=pout)
    # end-use equipment figures (district network, chiller, heat pump)
    for pin, pout, plants in (('dhtotaldistrictnetworkcost', 'dhdistrictcost', ('7',)), ('dhoandmcost', 'dhdistrictoandmcost', ('7',)),
                              ('chillercapex', 'chillercapex', ('5',)), ('chilleropex', 'chilleropex', ('5',)),
                              ('heatpumpcapex', 'heatpumpcapex', ('6',))):
        if pin in e and pout in e and plant in plants and enduse == '2' and e[pin].name in pd and supplied(e[pin]):
            total_hides = (totalcap_given and pout in ('dhdistrictcost', 'chillercapex', 'heatpumpcapex')) or \
                (totaloam_given and pout in ('dhdistrictoandmcost', 'chilleropex'))
            n_fixed += 1
            want = float(str(pd[e[pin].name]).split()[0])
            if not total_hides and not close(e[pout].value, want):
                bad('user_component_not_used', {'input': e[pin].name, 'supplied': want, 'reported': e[pout].value}, comp=pout)
    # per-well costs
    ppw, piw = e['per_production_well_cost'], e['per_injection_well_cost']
    c1p, c1i = e['cost_one_production_well'].value, e['cost_one_injection_well'].value
    lateral = e['cost_lateral_section'].value if 'cost_lateral_section' in e else 0.0
    if ppw.provided and ppw.valid:
        n_fixed += 1
        if not close(c1p, ppw.value):
            bad('user_component_not_used', {'input': ppw.name, 'supplied': ppw.value, 'reported': c1p}, comp='cost_one_production_well')
        want_inj = piw.value if piw.provided else ppw.value
        if not close(c1i, want_inj):
            bad('user_component_not_used', {'input': piw.name, 'supplied': want_inj, 'reported': c1i}, comp='cost_one_injection_well')
        want_cwell = c1p * nprod + c1i * ninj
        factor = 1.0
    else:
        inj_term = 0.0 if ninj == 0 else c1i * ninj
        want_cwell = 1.05 * (c1p * nprod + inj_term + lateral)
        factor = 1.05
    if not close(e['Cwell'].value, want_cwell):
        bad('wellfield_cost', {'Cwell': e['Cwell'].value, 'expected': want_cwell, 'per_prod': c1p, 'per_inj': c1i,
                               'nprod': nprod, 'ninj': ninj, 'laterals': lateral, 'factor': factor})
    # ---- capital roll-up
    dh = e['dhdistrictcost'].value if 'dhdistrictcost' in e else 0.0
    if totalcap_given:
        n_fixed += 1
        pre = e['totalcapcost'].value
    else:
        pre = (e['Cexpl'].value + e['Cwell'].value + e['Cstim'].value + e['Cgath'].value + e['Cplant'].value +
               e['Cpiping'].value + dh)
        want_piping = 0.75 * s.v('surfaceplant', 'piping_length')
        if not close(e['Cpiping'].value, want_piping):
            bad('piping_cost', {'Cpiping': e['Cpiping'].value, 'expected': want_piping})
    itc = 0.0
    if e['RITC'].provided:
        itc = e['RITC'].value * pre
        if not close(e['RITCValue'].value, itc):
            bad('itc_value', {'RITCValue': e['RITCValue'].value, 'expected': itc, 'rate': e['RITC'].value, 'pre_credit_cost': pre})
    want_ccap = pre - itc + e['FlatLicenseEtc'].value - e['OtherIncentives'].value - e['TotalGrant'].value
    if not close(e['CCap'].value, want_ccap, abs_=1e-9):
        bad('capex_rollup', {'CCap': e['CCap'].value, 'expected': want_ccap, 'pre_credit': pre, 'itc': itc,
                             'flat': e['FlatLicenseEtc'].value, 'incent': e['OtherIncentives'].value,
                             'grant': e['TotalGrant'].value, 'total_given': bool(totalcap_given)})
    # ---- plant cost includes end-use equipment (correlated plant cost only)
    if not (e['ccplantfixed'].provided and e['ccplantfixed'].valid) and enduse == '2':
        hx = float(np.max(np.asarray(s.v('surfaceplant', 'HeatExtracted'), dtype=float)))
        base = 1.12 * 1.15 * e['ccplantadjfactor'].value * 250E-6 * hx * 1000.
        extra = None
        if plant == '5':
            extra = e['chillercapex'].value
        elif plant == '6':
            extra = e['heatpumpcapex'].value
        elif plant == '7':
            extra = e['peakingboilercost'].value
        if extra is not None and not close(e['Cplant'].value, base + extra, rel=1e-9, abs_=1e-9):
            bad('plant_cost_end_use_equipment', {'Cplant': e['Cplant'].value, 'direct_use_part': base, 'equipment': extra})
    # ---- O&M roll-up
    if totaloam_given:
        n_fixed += 1
        base_oam = e['oamtotalfixed'].value
    else:
        base_oam = (e['Coamwell'].value + e['Coamplant'].value + e['Coamwater'].value + e['chilleropex'].value +
                    e['dhdistrictoandmcost'].value)
    amort = (e['Cwell'].value + e['Cstim'].value) * redrill / life if redrill > 0 else 0.0
    want_coam = base_oam + amort + e['AnnualLicenseEtc'].value - e['TaxRelief'].value
    if not close(e['Coam'].value, want_coam, abs_=1e-9):
        bad('opex_rollup', {'Coam': e['Coam'].value, 'expected': want_coam, 'base': base_oam, 'redrill': redrill,
                            'amortised_redrilling': amort, 'annual_fee': e['AnnualLicenseEtc'].value,
                            'tax_relief': e['TaxRelief'].value, 'total_given': bool(totaloam_given)})
    # ---- classification
    feats = 0
    feats += 1 if n_fixed else 0
    feats += 1 if any(n in pd and float(pd[n]) != 1.0 for n in gen._ADJ_FACTORS) else 0
    feats += 1 if (itc or e['FlatLicenseEtc'].value or e['OtherIncentives'].value or e['TotalGrant'].value or
                   e['AnnualLicenseEtc'].value or e['TaxRelief'].value) else 0
    feats += 1 if redrill > 0 else 0
    feats += 1 if lateral else 0
    labels += [f'enduse:{enduse}', f'plant:{plant}']
    if redrill > 0:
        labels.append('redrilling')
    if lateral:
        labels.append('laterals_costed')
    if totalcap_given:
        labels.append('total_capex_used')
    if totaloam_given:
        labels.append('total_opex_used')
    rec.case(case, nontrivial=feats >= 2, labels=labels, key=case['params'],
             sample={'family': case.get('family'), 'params': case['params'],
                     'observed': {'CCap': e['CCap'].value, 'Coam': e['Coam'].value, 'Cwell': e['Cwell'].value,
                                  'redrill': redrill}})
