"""C07 - out-of-range and invalid scalar inputs are rejected (naming the parameter, no result), bounds are
accepted and used.  Finite enumeration over every float/int parameter of every configuration family x probe kinds,
plus Hypothesis-drawn far-outside magnitudes and strictly-inside values."""
import math
import os
import sys

from hypothesis import strategies as st

from .. import units, gen, sim, meta, worker
from ..runner import drive

ID = 'C07'
LEVEL = 'fault_enumeration'
EXHAUSTIVE = True
BUDGET_S = {'quick': 400, 'thorough': 1500}
RULE = ('enumeration: every floatParameter/intParameter in the live ParameterDicts of every configuration family '
        '(standard reservoirs 0-4, all surface plants, econ models, add-ons, S-DAC-GT, SBT, SUTRA, UPP/TOUGH2/AGS up to '
        'read_parameters, HIP-RA-X) x {just below min (1 ulp and a coarse step), min, max, just above max, non-member '
        'option}; random tier: Hypothesis-drawn far-outside magnitudes and strictly-inside values. Outside probes go '
        'through GeophiresXClient/HipRaXClient (must raise naming the parameter, no result file); bound/inside probes '
        'through Model()+read_parameters() (value stored must equal the supplied quantity). Candidates equal to the '
        "parameter's default/current value are the 'not provided' sentinel and are skipped (counted). "
        'One outside probe per float parameter is also written with a unit (the declared unit itself, or a fraction in per cent): it must be refused too. Every probe of a parameter that has a documented alternative spelling (deprecated name still accepted) is repeated '
        'under that spelling; random outside probes carry 0-2 in-range companion inputs (accepted on their own). '
        'distinct non-trivial = distinct (family class, parameter, probe kind[, value, companions]).')
ASSUMPTIONS = [
    'acceptance is decided by Model()+read_parameters(); a later physical failure of an extreme valid value is out of scope',
    'documented scalings: Reservoir Depth km->m (x1000), Reservoir Impedance GPa.s/m3 -> x1000 are compared as quantities',
    'parameters without a finite declared bound (|Min|,|Max| >= 1e30) have no documented range on that side',
]

# documented conversions applied to the supplied number while reading (compared as quantities)
SCALINGS = {'Reservoir Depth': 1000.0, 'Reservoir Impedance': 1000.0}


def _example(name, extra=()):
    return gen.merge(sim.load_example_params(name), [['Print Output to Console', '0']], list(extra))


def families():
    fams = {
        'res4-elec2-econ1': gen.merge(gen.RES4, gen.ELEC(2), gen.ECON['1']),
        'res3-heat-econ2': gen.merge(gen.RES3, gen.HEAT, gen.ECON['2']),
        'res1-cogen31p1-econ3': gen.merge(gen.RES1, gen.COGEN(31, 1), gen.ECON['3']),
        'res2-chiller-econ1': gen.merge(gen.RES2, gen.CHILLER, gen.ECON['1']),
        'res0-heatpump-econ2': gen.merge(gen.RES0, gen.HEATPUMP, gen.ECON['2']),
        'res4-district-econ2': gen.merge(gen.RES4, gen.DISTRICT, gen.ECON['2']),
        'res4-elec4-addons': gen.merge(gen.RES4, gen.ELEC(4), gen.ECON['1'], gen.ADDONS),
        'res4-elec3-econ3': gen.merge(gen.RES4, gen.ELEC(3), gen.ECON['3']),
        'res3-cogen52p1-econ2': gen.merge(gen.RES3, gen.COGEN(52, 1), gen.ECON['2']),
        'res4-heat-nop': gen.merge(gen.RES4, gen.HEAT_NOPLANT, gen.ECON['1']),
        'sdacgt': _example('S-DAC-GT'),
        'sbt': _example('example_SBT_Lo_T'),
        'sutra': _example('SUTRAExample1'),
        'upp': _example('example5'),
        'tough2': _example('example6'),
        'ags': _example('Beckers_et_al_2023_Tabulated_Database_Uloop_water_elec'),
        'overpressure': _example('example_overpressure'),
        'fervo': _example('Fervo_Project_Cape-3'),
    }
    return fams


def plan(tier, seed, shards):
    specs = [{'kind': 'enum', 'family': f} for f in families()]
    specs.append({'kind': 'enum-hip'})
    n = 60 if tier == 'quick' else 1500
    for s in range(shards):
        specs.append({'kind': 'hyp', 'n': n, 'seed': seed * 1000 + s})
    return specs


# ------------------------------------------------------------------ probes

def _client_rejects(params_text, name):
    """-> (raised, names_param, result_exists, message)"""
    worker.init_worker()
    from geophires_x_client import GeophiresXClient, GeophiresInputParameters

    d = worker.scratch_dir()
    path = os.path.join(d, f'c07-{os.getpid()}.txt')
    with open(path, 'w', encoding='UTF-8') as f:
        f.write(params_text)
    ip = GeophiresInputParameters(from_file_path=path)
    outp = str(ip.get_output_file_path())
    for p in (outp, outp[:-4] + '.json'):
        if os.path.exists(p):
            os.remove(p)
    stash_cwd, stash_argv = os.getcwd(), sys.argv
    raised, msg = False, ''
    try:
        with worker.quiet():
            GeophiresXClient(enable_caching=False).get_geophires_result(ip)
    except BaseException as e:
        if isinstance(e, (KeyboardInterrupt, MemoryError)):
            raise
        raised, msg = True, f'{type(e).__name__}: {e}'
    finally:
        sys.argv = stash_argv
        os.chdir(stash_cwd)
    exists = os.path.exists(outp) or os.path.exists(outp[:-4] + '.json')
    for p in (outp, outp[:-4] + '.json', path):
        if os.path.exists(p):
            os.remove(p)
    return raised, (name in msg), exists, msg[:300]


def _close(a, b):
    try:
        return a == b or math.isclose(float(a), float(b), rel_tol=1e-12, abs_tol=0.0)
    except (TypeError, ValueError):
        return False


def _accepted_and_used(params_text, name, val):
    """-> (ok, detail)"""
    m, e = sim.read_only(params_text)
    if e:
        return False, {'rejected': e}
    got = [(c, meta._num(p.value)) for c, p in meta.find_params(m, name)]
    want = [val]
    if name in SCALINGS:
        want.append(val * SCALINGS[name])
    for c, g in got:
        if any(_close(g, w) for w in want):
            return True, None
    announced = any(name in ln for ln in getattr(m, '_gxv_stdout', '').splitlines() if 'Warning' in ln)
    return False, {'stored': [(c, repr(g)) for c, g in got], 'supplied': val, 'announced': announced}


def _name_ranges(rows):
    """per Name: list of (lo, hi) float ranges / allowable sets declared by the modules holding that name."""
    d = {}
    for r in rows:
        d.setdefault(r['name'], []).append(r)
    return d


def _inside_all(rows_for_name, val):
    for r in rows_for_name:
        if r['kind'] == 'floatParameter':
            if val < float(r['min']) or val > float(r['max']):
                return False
        elif r['kind'] == 'intParameter':
            if int(val) != r['default'] and int(val) not in set(r['allowable']):
                return False
    return True


def _probe_values(r):
    """[(probe kind, value, expect 'reject'|'accept')]"""
    out = []
    if r['kind'] == 'floatParameter':
        lo, hi = float(r['min']), float(r['max'])
        if abs(lo) < 1e30:
            step = max(abs(hi - lo) if abs(hi) < 1e30 else abs(lo), 1.0) * 0.01
            out += [('below_min_ulp', math.nextafter(lo, -math.inf), 'reject'), ('below_min', lo - step, 'reject'),
                    ('min', lo, 'accept')]
        if abs(hi) < 1e30:
            step = max(abs(hi - lo) if abs(lo) < 1e30 else abs(hi), 1.0) * 0.01
            out += [('above_max_ulp', math.nextafter(hi, math.inf), 'reject'), ('above_max', hi + step, 'reject'),
                    ('max', hi, 'accept')]
    elif r['kind'] == 'intParameter' and r['allowable']:
        al = sorted(set(r['allowable']))
        out += [('below_min', al[0] - 1, 'reject'), ('min', al[0], 'accept'), ('max', al[-1], 'accept'),
                ('above_max', al[-1] + 1, 'reject')]
        gaps = [a + 1 for a, b in zip(al, al[1:]) if b - a > 1]
        if gaps:
            out.append(('non_member', gaps[len(gaps) // 2], 'reject'))
            if len(gaps) > 1:
                out.append(('non_member_first', gaps[0], 'reject'))
    return out


# other spellings the reader documents for a parameter (deprecated names that are still accepted): a value written under
# one of them is the same input and falls under the same declared range
ALIASES = {'Nonvertical Length per Multilateral Section': ['Total Nonvertical Length']}


def _check_probe(rec, family, base, rows_by_name, r, kind, val, expect, written_as=None, context=()):
    name = r['name']
    spelled = gen.fmt(val)
    if '@unit' in kind:
        # the same outside value written with a unit: '<value> <declared unit>' (identity), or a fraction written in per cent
        spelled = f'{gen.fmt(val * 100.0)} %' if r['pu'] == '' else f'{gen.fmt(val)} {r["pu"]}'
    if written_as:
        params = gen.drop_param(base, name) + [[written_as, spelled]]
    else:
        params = gen.set_param(base, name, spelled)
    for cn, cv in context:
        params = gen.set_param(params, cn, cv)
    case = {'family': family, 'params': params, 'probe': [name, kind, gen.fmt(val), expect], 'cls': r['cls']}
    if written_as:
        case['written_as'] = written_as
        kind = kind + '@alias'
    if context:
        case['context'] = [list(c) for c in context]
    # the 'not provided' sentinel: a value equal to what the parameter currently holds is a no-op; for integer parameters the
    # declared default is one too (the reader returns on it). A float equal to a declared default that differs from the
    # current value is an ordinary input and is range-checked.
    if _close(val, r['value']) or (_close(val, r['default']) and (r['kind'] == 'intParameter' or
                                                                   any(a == name for a, _ in base))):
        # (when the base text sets the parameter, r['value'] is not its initial value: the initial value is not known, skip)
        rec.count('skipped_sentinel_equals_default_or_current')
        return
    key = [r['cls'], name, kind] + ([gen.fmt(val)] if kind.startswith('rand') else []) + [list(c) for c in context]
    text = sim.render(case['params'])
    if expect == 'reject':
        raised, names, exists, msg = _client_rejects(text, name)
        rec.case(case, nontrivial=True, labels=[f'reject:{kind}', f'family:{family}'] + (['with_companion_inputs'] if context else []), key=key,
                 sample={'family': family, 'cls': r['cls'], 'probe': case['probe']})
        if not raised:
            # was it silently altered, or used as given?
            m, e = sim.read_only(text)
            stored = [(c, repr(meta._num(p.value))) for c, p in meta.find_params(m, name)] if m else None
            rec.violation('not_rejected', case, {'stored': stored, 'declared': [r['min'], r['max'], r['allowable'][:20]]},
                          cls=r['cls'], name=name, probe=kind.replace('_ulp', ''))
        else:
            if not names and '@unit' in kind:
                rec.count('unit_spelled_value_refused_without_naming_the_parameter')  # refused through the unit machinery: C06's subject
            elif not names:
                rec.violation('error_does_not_name_parameter', case, {'message': msg}, cls=r['cls'], name=name)
            if exists:
                rec.violation('result_produced_despite_rejection', case, {'message': msg}, cls=r['cls'], name=name)
    else:
        if not _inside_all(rows_by_name[name], val):
            rec.count('skipped_bound_outside_other_module_range')
            return
        ok, detail = _accepted_and_used(text, name, val)
        rec.case(case, nontrivial=True, labels=[f'accept:{kind}', f'family:{family}'], key=key,
                 sample={'family': family, 'cls': r['cls'], 'probe': case['probe']})
        if not ok:
            if 'rejected' in detail:
                # a different configuration may need other inputs (data files, companion options): only a rejection
                # that names this parameter is a refusal of the value itself
                if name not in (detail['rejected'].get('msg') or ''):
                    rec.count('accept_probe_failed_for_other_reason')
                    rec.label('other_failure:' + str(detail['rejected'].get('type')))
                    return
                rec.violation('bound_rejected', case, detail, cls=r['cls'], name=name, probe=kind)
            elif detail.get('announced'):
                # a cross-parameter override announced with a printed warning naming the parameter (e.g. the closed-loop
                # model forcing 'Number of Segments' to 1) is not a *silent* alteration
                rec.count('accept_probe_overridden_with_warning')
            else:
                rec.violation('bound_not_used_as_given', case, detail, cls=r['cls'], name=name, probe=kind)


class FamilyRejected(Exception):
    pass


def _base_rejected(rec, family, base, e):
    """the family base only holds values inside their declared ranges: a range rejection of it is a refused valid value"""
    e = e.args[0]
    if 'outside of valid range' in (e.get('msg') or ''):
        rec.case({'family': family, 'params': base}, nontrivial=False)
        rec.violation('in_range_base_value_rejected', {'family': family, 'params': base, 'probe': ['-', 'base', '0', 'accept']},
                      {'rejected': e}, message=e.get('msg'))
    else:
        raise RuntimeError(f'HARNESS: family base {family} not accepted: {e}')


def _family_rows(base):
    m, e = sim.read_only(sim.render(base))
    if e:
        raise FamilyRejected(e)
    rows = [r for r in meta.param_rows(m) if r['kind'] in ('floatParameter', 'intParameter')]
    return rows


def run_shard(spec, rec):
    if spec['kind'] == 'enum':
        base = families()[spec['family']]
        try:
            rows = _family_rows(base)
        except FamilyRejected as e:
            _base_rejected(rec, spec['family'], base, e)
            return
        byname = _name_ranges(rows)
        # companion totals: inputs named 'Total ...' supersede itemised inputs of their module in the calculation; stating one must not
        # switch off the range check of anything else.  One outside probe per parameter is repeated with every total of the family
        # stated in range (the totals alone must be an accepted input).
        worker.init_worker()
        from geophires_x.Units import Units as _U
        percent_ut = getattr(_U.PERCENT, 'value', _U.PERCENT)
        totals, seen_t = [], set()
        for c in rows:
            if c['kind'] == 'floatParameter' and c['name'].startswith('Total ') and c['name'] not in seen_t and \
                    abs(float(c['min'])) < 1e30 and abs(float(c['max'])) < 1e30:
                seen_t.add(c['name'])
                totals.append((c['name'], gen.fmt(float(c['min']) + (float(c['max']) - float(c['min'])) * 0.025)))
        if totals:
            pt = base
            for cn, cv in totals:
                pt = gen.set_param(pt, cn, cv)
            if sim.read_only(sim.render(pt))[1] is not None:
                rec.count('companion_totals_rejected_on_their_own')
                totals = []
        for r in rows:
            rejects = [pv for pv in _probe_values(r) if pv[2] == 'reject' and not pv[0].endswith('_ulp')]
            if totals and rejects and r['name'] not in seen_t:
                kind, val, expect = rejects[-1]
                _check_probe(rec, spec['family'], base, byname, r, kind + '+totals', val, expect, context=tuple(totals))
            if rejects and r['kind'] == 'floatParameter' and (r['pu'] in units.TABLE or (r['pu'] in ('', '%') and r['ut'] == percent_ut)):
                kind, val, expect = rejects[-1]
                _check_probe(rec, spec['family'], base, byname, r, kind + '@unit', val, expect)
            for kind, val, expect in _probe_values(r):
                _check_probe(rec, spec['family'], base, byname, r, kind, val, expect)
                for alias in ALIASES.get(r['name'], []):
                    _check_probe(rec, spec['family'], base, byname, r, kind, val, expect, written_as=alias)
        rec.count('families_enumerated')
        rec.count('parameters_enumerated', len(rows))
    elif spec['kind'] == 'enum-hip':
        _hip_enum(rec)
    elif spec['kind'] == 'hyp':
        fams = families()
        names = sorted(fams)
        cache = {}

        def rows_of(f):
            if f not in cache:
                try:
                    rows = _family_rows(fams[f])
                except FamilyRejected as e:
                    _base_rejected(rec, f, fams[f], e)
                    rows = []
                cache[f] = (rows, _name_ranges(rows))
            return cache[f]

        @st.composite
        def probes(draw):
            f = draw(st.sampled_from(names))
            rows, byname = rows_of(f)
            if not rows:
                return f, None, 'none', 0, 'skip'
            r = draw(st.sampled_from(rows))
            if r['kind'] == 'floatParameter':
                lo, hi = float(r['min']), float(r['max'])
                mode = draw(st.sampled_from(['inside', 'inside', 'far_below', 'far_above', 'sign_flip']))
                if mode == 'inside' and abs(lo) < 1e30 and abs(hi) < 1e30 and lo < hi:
                    v = draw(st.floats(lo, hi, exclude_min=True, exclude_max=True, allow_nan=False))
                    return f, r, 'rand_inside', v, 'accept'
                mag = draw(st.floats(1.0001, 1e6))
                if mode == 'far_below' and abs(lo) < 1e30:
                    v = lo - mag * max(abs(lo), 1e-3)
                    return f, r, 'rand_far_below', v, 'reject'
                if mode == 'sign_flip' and abs(lo) < 1e30 and lo >= 0 and abs(hi) < 1e30 and hi > 0:
                    v = -draw(st.floats(min(hi, 1e-6), hi))
                    if v < lo:
                        return f, r, 'rand_sign_flip', v, 'reject'
                if abs(hi) < 1e30:
                    v = hi + mag * max(abs(hi), 1e-3)
                    return f, r, 'rand_far_above', v, 'reject'
                return f, r, 'none', 0, 'skip'
            al = sorted(set(r['allowable']))
            if not al:
                return f, r, 'none', 0, 'skip'
            mode = draw(st.sampled_from(['inside', 'outside']))
            if mode == 'inside':
                return f, r, 'rand_inside', draw(st.sampled_from(al)), 'accept'
            als = set(al)
            v = draw(st.integers(al[0] - 1000, al[-1] + 1000).filter(lambda x: x not in als))
            return f, r, 'rand_outside', v, 'reject'

        ctx_ok = {}

        @st.composite
        def probes_ctx(draw):
            """an outside probe together with 1-2 other, in-range inputs of the same family (companions: preferably inputs of the
            same module whose names share a word with the probed one, e.g. a total next to its components): whatever else the
            file says, an out-of-range value is refused."""
            f, r, kind, v, expect = draw(probes())
            if expect != 'reject':
                return f, r, kind, v, expect, ()
            rows, byname = rows_of(f)
            words = {w for w in r['name'].replace('&', ' ').split() if len(w) > 3}
            cand = [c for c in rows if c['kind'] == 'floatParameter' and c['name'] != r['name'] and
                    abs(float(c['min'])) < 1e30 and abs(float(c['max'])) < 1e30 and float(c['min']) < float(c['max'])]
            near = [c for c in cand if c['cls'] == r['cls'] and (words & set(c['name'].replace('&', ' ').split()))]
            ctx = []
            for _ in range(draw(st.integers(0, 2))):
                pool = near if near and draw(st.booleans()) else cand
                if not pool:
                    break
                c = draw(st.sampled_from(pool))
                lo, hi = float(c['min']), float(c['max'])
                ctx.append((c['name'], gen.fmt(draw(gen.nice_floats(lo + (hi - lo) * 0.01, hi - (hi - lo) * 0.5)))))
            return f, r, kind, v, expect, tuple(ctx)

        def fn(pr):
            if rec.out_of_time():
                return
            f, r, kind, v, expect, ctx = pr
            if expect == 'skip':
                rec.count('hyp_skipped_no_bound')
                return
            rows, byname = rows_of(f)
            if ctx:
                # the companions alone must be an accepted input, otherwise a failure says nothing about the probed value
                ck = (f, ctx)
                if ck not in ctx_ok:
                    p = fams[f]
                    for cn, cv in ctx:
                        p = gen.set_param(p, cn, cv)
                    ctx_ok[ck] = sim.read_only(sim.render(p))[1] is None
                if not ctx_ok[ck]:
                    rec.count('companion_inputs_rejected_on_their_own')
                    ctx = ()
            _check_probe(rec, f, fams[f], byname, r, kind, v, expect, context=ctx)

        drive(probes_ctx(), fn, spec['n'], spec['seed'])


# ------------------------------------------------------------------ HIP-RA-X

HIP_BASE = [['Reservoir Temperature', '250.0'], ['Rejection Temperature', '60.0'], ['Reservoir Porosity', '10.0'],
            ['Reservoir Area', '55.0'], ['Reservoir Thickness', '0.25'], ['Reservoir Life Cycle', '25'],
            ['Rock Heat Capacity', '2.84E+12'], ['Fluid Specific Heat Capacity', '-1.0'], ['Density Of Reservoir Fluid', '-1.0'],
            ['Density Of Reservoir Rock', '2.55E+12']]


def _hip_model(text):
    worker.init_worker()
    from hip_ra_x import hip_ra_x

    d = worker.scratch_dir()
    path = os.path.join(d, f'hip-{os.getpid()}.txt')
    with open(path, 'w') as f:
        f.write(text)
    stash_cwd, stash_argv = os.getcwd(), sys.argv
    sys.argv = ['', path, os.path.join(d, 'hip.out')]
    try:
        with worker.quiet():
            m = hip_ra_x.HIP_RA_X(enable_hip_ra_logging_config=False)
            m.read_parameters()
        return m, None
    except BaseException as e:
        if isinstance(e, (KeyboardInterrupt, MemoryError)):
            raise
        return None, sim._exc_info(e)
    finally:
        sys.argv = stash_argv
        os.chdir(stash_cwd)


def _hip_client_rejects(text, name):
    worker.init_worker()
    from hip_ra_x import HipRaXClient
    from hip_ra import HipRaInputParameters

    d = worker.scratch_dir()
    path = os.path.join(d, f'hipc-{os.getpid()}.txt')
    with open(path, 'w') as f:
        f.write(text)
    ip = HipRaInputParameters(path)
    outp = str(ip.output_file_path)
    stash_cwd, stash_argv = os.getcwd(), sys.argv
    raised, msg = False, ''
    try:
        with worker.quiet():
            HipRaXClient().get_hip_ra_result(ip)
    except BaseException as e:
        if isinstance(e, (KeyboardInterrupt, MemoryError)):
            raise
        raised, msg = True, f'{type(e).__name__}: {e}'
    finally:
        sys.argv = stash_argv
        os.chdir(stash_cwd)
    exists = os.path.exists(outp)
    if exists:
        os.remove(outp)
    return raised, (name in msg), exists, msg[:300]


def _hip_rows(m):
    rows = []
    for key, p in m.ParameterDict.items():
        kind = type(p).__name__
        if kind not in ('floatParameter', 'intParameter'):
            continue
        rows.append({'comp': 'hip', 'cls': 'HIP_RA_X', 'key': key, 'name': p.Name.strip(), 'kind': kind,
                     'min': getattr(p, 'Min', None), 'max': getattr(p, 'Max', None),
                     'allowable': list(getattr(p, 'AllowableRange', []) or []),
                     'default': meta._num(getattr(p, 'DefaultValue', None)), 'value': meta._num(p.value)})
    return rows


def _hip_enum(rec):
    m, e = _hip_model(sim.render(HIP_BASE))
    if e:
        raise RuntimeError(f'HARNESS: HIP base rejected {e}')
    rows = _hip_rows(m)
    for r in rows:
        for kind, val, expect in _probe_values(r):
            _hip_probe(rec, r, kind, val, expect)
    rec.count('families_enumerated')
    rec.count('parameters_enumerated', len(rows))


def _hip_probe(rec, r, kind, val, expect):
    name = r['name']
    # the 'not provided' sentinel: a value equal to what the parameter currently holds is a no-op; for integer parameters the
    # declared default is one too (the reader returns on it). A float equal to a declared default that differs from the
    # current value is an ordinary input and is range-checked.
    if _close(val, r['value']) or (_close(val, r['default']) and (r['kind'] == 'intParameter' or
                                                                   any(a == name for a, _ in HIP_BASE))):
        rec.count('skipped_sentinel_equals_default_or_current')
        return
    case = {'family': 'hip-ra-x', 'params': gen.set_param(HIP_BASE, name, gen.fmt(val)),
            'probe': [name, kind, gen.fmt(val), expect], 'cls': 'HIP_RA_X'}
    text = sim.render(case['params'])
    key = ['HIP_RA_X', name, kind]
    rec.case(case, nontrivial=True, labels=[f'{"reject" if expect == "reject" else "accept"}:{kind}', 'family:hip-ra-x'],
             key=key, sample={'family': 'hip-ra-x', 'probe': case['probe']})
    if expect == 'reject':
        raised, names, exists, msg = _hip_client_rejects(text, name)
        if not raised:
            m, e = _hip_model(text)
            stored = [repr(p.value) for p in m.ParameterDict.values() if p.Name.strip() == name] if m else None
            rec.violation('not_rejected', case, {'stored': stored}, cls='HIP_RA_X', name=name,
                          probe=kind.replace('_ulp', ''))
        else:
            if not names:
                rec.violation('error_does_not_name_parameter', case, {'message': msg}, cls='HIP_RA_X', name=name)
            if exists:
                rec.violation('result_produced_despite_rejection', case, {'message': msg}, cls='HIP_RA_X', name=name)
    else:
        m, e = _hip_model(text)
        if e:
            rec.violation('bound_rejected', case, {'rejected': e}, cls='HIP_RA_X', name=name, probe=kind)
            return
        got = [p.value for p in m.ParameterDict.values() if p.Name.strip() == name]
        if not any(_close(g, val) for g in got):
            rec.violation('bound_not_used_as_given', case, {'stored': [repr(g) for g in got], 'supplied': val},
                          cls='HIP_RA_X', name=name, probe=kind)


def evaluate(case, rec):
    """replay one probe case"""
    name, kind, sval, expect = case['probe']
    val = float(sval) if ('.' in sval or 'e' in sval or 'inf' in sval) else int(sval)
    if case['family'] == 'hip-ra-x':
        m, e = _hip_model(sim.render(HIP_BASE))
        r = [x for x in _hip_rows(m) if x['name'] == name][0]
        _hip_probe(rec, r, kind, val, expect)
        return
    if kind == 'base':
        try:
            _family_rows(case['params'])
        except FamilyRejected as e:
            _base_rejected(rec, case['family'], case['params'], e)
        return
    # rebuild metadata from the case's own params with the probed parameter removed
    ctx = tuple(tuple(c) for c in case.get('context', []))
    drop = {name, case.get('written_as')} | {c[0] for c in ctx}
    fam_base = families().get(case['family'], [])
    base = [p for p in case['params'] if p[0] not in drop] + [p for p in fam_base if p[0] in drop - {case.get('written_as')}]
    unit_sp = '@unit' in kind
    kind = kind.replace('@alias', '').replace('+totals', '').replace('@unit', '') + ('@unit' if unit_sp else '')
    rows = _family_rows(base)
    byname = _name_ranges(rows)
    rs = [x for x in rows if x['name'] == name and x['cls'] == case.get('cls', x['cls'])] or \
         [x for x in rows if x['name'] == name]
    _check_probe(rec, case['family'], base, byname, rs[0], kind, val, expect, written_as=case.get('written_as'), context=ctx)


NO_SHRINK = True
