"""C12 - input-file layout is irrelevant: order, blank/comment lines, trailing comments, whitespace, line endings;
last occurrence of a duplicated parameter governs; client overrides govern over the base file."""
import os
import sys

import numpy as np
from hypothesis import strategies as st

from .. import gen, sim, snapshot, worker
from ..runner import drive

ID = 'C12'
LEVEL = 'exploration'
BUDGET_S = {'quick': 300, 'thorough': 1500}
RULE = ('a parameter set from configs() (all families, add-ons in a fraction, example-seeded) is rendered canonically and in a '
        'decorated layout: random permutation of lines (lines with the same name and add-on lines keep their relative order), '
        'blank lines, comment lines starting #, -- or * (with commas inside), trailing ", comment" / ", -- comment" fields, '
        'spaces and tabs around names and values, \\n / \\r\\n / \\r, missing final newline, and inserted earlier '
        'duplicates carrying a different valid value. Oracle: both runs give identical snapshots (exact equality of every '
        'output and parameter value). Client path: base file (with / without final newline) + override dict must equal the '
        'run with the value replaced. Tokenizer level: read_input_file vs an independent reference tokenizer of the documented '
        'grammar on Hypothesis text built from a dictionary of names, separators and comment markers (atheris byte fuzzing in '
        'the thorough tier when available). Non-trivial = non-identity permutation plus at least one other decoration class.')
ASSUMPTIONS = ['comment text never contains a line break; a trailing comment is separated from the value by a comma (documented forms)',
               'add-on lines keep their relative order (the add-on arrays are filled in file order, as the statement allows)']

COMMENT_TEXT = ['[km]', '---[deg.C/km]', 'note, with, commas', 'Should be 1 2 3 or 4. See manual', '***', 'x = 3, y', '# inner', 'Reservoir Depth, 9']


def plan(tier, seed, shards):
    q = tier == 'quick'
    specs = []
    for s in range(shards):
        specs.append({'kind': 'layout', 'n': 45 if q else 1800, 'seed': seed * 1000 + s, 'tier': tier})
        specs.append({'kind': 'client', 'n': 12 if q else 300, 'seed': seed * 1000 + 100 + s})
        specs.append({'kind': 'token', 'n': 2500 if q else 60000, 'seed': seed * 1000 + 200 + s})
    if tier == 'thorough':
        specs.append({'kind': 'atheris', 'runs': 400000, 'seed': seed})
    return specs


# ------------------------------------------------------------------ layout decoration

def _group(name):
    return 'addon' if name.startswith('AddOn ') else name


@st.composite
def decorated(draw, params, prefer_dup=()):
    """-> (text, newline, classes); `prefer_dup`: names whose line gets a repeated earlier occurrence in most cases"""
    n = len(params)
    classes = set()
    # permutation preserving relative order inside each group
    order = draw(st.permutations(list(range(n))))
    by_group = {}
    for idx in sorted(order):
        by_group.setdefault(_group(params[idx][0]), []).append(idx)
    taken = {g: 0 for g in by_group}
    perm = []
    for idx in order:
        g = _group(params[idx][0])
        perm.append(by_group[g][taken[g]])
        taken[g] += 1
    if perm != list(range(n)):
        classes.add('permutation')
    lines = []
    # duplicate insertion: earlier line with another valid value for a name that appears later
    dup_at = {}
    forced = [k for k in range(n) if params[perm[k]][0] in prefer_dup] if prefer_dup and draw(st.integers(0, 3)) != 0 else []
    if forced or draw(st.booleans()):
        for t in range(draw(st.integers(1, 3))):
            pos = forced[t % len(forced)] if forced and t < len(forced) else draw(st.integers(0, n - 1))
            name, value = params[perm[pos]]
            if _group(name) == 'addon' or name in ('Reservoir Model', 'End-Use Option', 'Power Plant Type', 'Economic Model',
                                                   'Do AddOn Calculations', 'Do S-DAC-GT Calculations', 'Is AGS'):
                continue  # option switches decide which modules are built while the file is still being read: keep a single value
            if value.lstrip('-').isdigit():
                continue
            if name in ('Gradients', 'Thicknesses'):
                # list-valued line repeated: same first element, other tail (the last occurrence governs as a whole)
                parts = [x.strip() for x in value.split(',')]
                if len(parts) < 2:
                    continue
                alt = ', '.join([parts[0]] + [gen.fmt(round(float(x) * 0.5 + 0.123, 4)) for x in parts[1:]])
                classes.add('duplicate_list_line')
            else:
                try:
                    alt = gen.fmt(float(value) * 0.5 + 0.123)
                except ValueError:
                    continue
            dup_at.setdefault(draw(st.integers(0, pos)), []).append([name, alt])
            classes.add('duplicate')
    for k, idx in enumerate(perm):
        for nm, alt in dup_at.get(k, []):
            lines.append(f'{nm}, {alt}')
        if draw(st.integers(0, 5)) == 0:
            lines.append(draw(st.sampled_from(['', '   ', '\t'])))
            classes.add('blank')
        if draw(st.integers(0, 5)) == 0:
            marker = draw(st.sampled_from(['#', '--', '*', '# ', '***', '  # ', '\t--']))
            lines.append(marker + draw(st.sampled_from(COMMENT_TEXT)))
            classes.add('comment_line')
        name, value = params[idx]
        ws = lambda: draw(st.sampled_from(['', '', ' ', '  ', '\t', ' \t ']))
        line = f'{ws()}{name}{ws()},{ws()}{value}{ws()}'
        if any(c in line for c in '\t') or line != f'{name},{value}' and line != f'{name}, {value}':
            classes.add('whitespace')
        k2 = draw(st.integers(0, 4))
        if name in ('Gradients', 'Thicknesses') and k2 == 0:
            k2 = 1  # after a list value only the '--' comment form is a comment (further comma fields are list entries)
        if k2 == 0:
            line += ',' + ws() + draw(st.sampled_from(COMMENT_TEXT))
            classes.add('trailing_comment')
        elif k2 == 1:
            line += ', -- ' + draw(st.sampled_from(COMMENT_TEXT))
            classes.add('trailing_comment')
        elif k2 == 2:
            line += ','
            classes.add('trailing_comma')
        lines.append(line)
    nl = draw(st.sampled_from(['\n', '\n', '\r\n', '\r']))
    if nl != '\n':
        classes.add('line_ending')
    text = nl.join(lines)
    if draw(st.booleans()):
        text += nl
    else:
        classes.add('no_final_newline')
    return text, sorted(classes)


@st.composite
def layout_cases(draw, tier):
    base = draw(gen.configs(reservoirs=('4', '3'), slow_fraction=0.0, addons=0.15, costs=True, prices=True, examples=0.2))
    params = [p for p in base['params']]
    extra = []
    k = draw(st.integers(0, 9))
    if k == 0 and not base['family'].startswith('example:'):
        # the temperature profile in its list spelling
        nseg = draw(st.integers(2, 4))
        params = [p for p in params if not (p[0].startswith('Gradient ') or p[0].startswith('Thickness ') or p[0] in ('Gradients', 'Thicknesses'))]
        params = gen.merge(params, [['Number of Segments', str(nseg)],
                                    ['Gradients', ', '.join(gen.fmt(draw(gen.nice_floats(20, 80))) for _ in range(nseg))],
                                    ['Thicknesses', ', '.join(gen.fmt(draw(gen.nice_floats(0.3, 1.5))) for _ in range(nseg - 1))]])
        extra.append('list_style_profile')
    elif k == 1:
        # extensions switched on by the mere presence of their parameters (no explicit 'Do AddOn Calculations' line), both at once
        names = set(p[0] for p in params)
        if not any(n.startswith('AddOn ') for n in names):
            params = gen.merge(gen.drop_param(params, 'Construction Years'), [q for q in gen.ADDONS if q[0] != 'Do AddOn Calculations'])
        params = gen.drop_param(params, 'Do AddOn Calculations')
        params = gen.merge(params, [['Do S-DAC-GT Calculations', 'True'], ['S-DAC-GT CAPEX', gen.fmt(draw(gen.nice_floats(800, 2000)))]])
        extra.append('extensions_auto_detected')
    elif k == 2:
        # a parameter stated under both of its documented spellings (current name and the deprecated one still accepted) with
        # different values: the reader lets the current name govern, wherever the two lines stand
        a, b = draw(gen.nice_floats(60, 9000)), draw(gen.nice_floats(60, 9000))
        pair = [['Nonvertical Length per Multilateral Section', gen.fmt(a)], ['Total Nonvertical Length', gen.fmt(b if b != a else a + 7.0)]]
        if draw(st.booleans()):
            pair.reverse()
        params = gen.merge(gen.drop_param(gen.drop_param(params, 'Nonvertical Length per Multilateral Section'), 'Total Nonvertical Length'),
                           [['Number of Multilateral Sections', str(draw(st.integers(1, 4)))]], pair)
        extra.append('both_spellings_of_one_parameter')
    text, classes = draw(decorated(params, prefer_dup=('Gradients', 'Thicknesses') if 'list_style_profile' in extra else ()))
    return {'kind': 'layout', 'family': base['family'], 'params': params, 'text': text, 'classes': sorted(set(classes) | set(extra))}


def snap_equal(a, b):
    """first difference between two snapshots (all outputs and parameter values), or None"""
    fa, fb = snapshot.numeric_fields(a, kinds=('all',)), snapshot.numeric_fields(b, kinds=('all',))
    for k in sorted(set(fa) | set(fb)):
        if k.endswith('.CalcTime') or 'calculation_time' in k.lower():
            continue
        va, vb = fa.get(k), fb.get(k)
        try:
            xa, xb = np.asarray(va, dtype=float), np.asarray(vb, dtype=float)
            same = xa.shape == xb.shape and bool(np.array_equal(xa, xb, equal_nan=True))
        except (TypeError, ValueError):
            same = str(va) == str(vb)
        if not same:
            return {'field': k, 'canonical': snapshot.to_jsonable(va, 6), 'decorated': snapshot.to_jsonable(vb, 6)}
    return None


def _last_wins(params):
    return gen.merge(params)


def _eval_layout(c, rec):
    # canonical reference: the parameter set with the last occurrence of each name (duplicates were inserted *earlier*)
    r0 = sim.run_text(sim.render(c['params']), want_report=False)
    r1 = sim.run_text(c['text'], want_report=False, newline='')
    classes = c['classes']
    labels = [f'deco:{x}' for x in classes]
    nt = 'permutation' in classes and len(classes) >= 2
    case = {k: c[k] for k in ('kind', 'family', 'params', 'text', 'classes')}
    if any((not r.ok) and r.exc and r.exc.get('type') == 'RunTimeout' for r in (r0, r1)):
        # the harness-side hang guard fired on one leg (machine load): inconclusive, never a violation
        rec.case(case, nontrivial=False, labels=['inconclusive_hang_guard'])
        return
    if not r0.ok:
        if r1.ok:
            rec.case(case, nontrivial=nt, labels=labels, key=c['text'])
            rec.violation('decorated_accepted_but_canonical_rejected', case, {'canonical_error': r0.exc}, classes='+'.join(classes))
        else:
            rec.case(case, nontrivial=False, labels=['rejected_both'])
        return
    rec.case(case, nontrivial=nt, labels=labels, key=c['text'],
             sample={'family': c['family'], 'classes': classes, 'text_head': c['text'][:400]})
    if not r1.ok:
        rec.violation('decorated_rejected', case, {'error': r1.exc}, classes='+'.join(classes), error=str(r1.exc['type']))
        return
    d = snap_equal(r0.snap, r1.snap)
    if d:
        rec.violation('layout_changes_result', case, d, classes='+'.join(classes))


# ------------------------------------------------------------------ client override path

@st.composite
def client_cases(draw):
    base = draw(gen.configs(reservoirs=('4',), slow_fraction=0.0, addons=0.0, costs=False, prices=False, examples=0.0))
    params = base['params']
    cands = [p for p in params if p[0] in ('Gradient 1', 'Reservoir Depth', 'Production Flow Rate per Well', 'Injection Temperature',
                                           'Plant Lifetime', 'Utilization Factor', 'Number of Production Wells')]
    k = draw(st.integers(1, min(3, len(cands))))
    chosen = draw(st.permutations(cands))[:k]
    over = []
    for n, v in chosen:
        if n == 'Plant Lifetime':
            nv = str(max(2, int(v) // 2 + 1))
        elif n == 'Number of Production Wells':
            nv = str(int(v) % 5 + 1)
        else:
            nv = gen.fmt(float(v) * draw(st.sampled_from([0.9, 0.8, 1.05])))
        over.append([n, nv])
    return {'kind': 'client', 'family': base['family'], 'params': params, 'overrides': over,
            'final_newline': draw(st.booleans()), 'last_line_comment': draw(st.booleans())}


def _eval_client(c, rec):
    worker.init_worker()
    from geophires_x_client import GeophiresXClient, GeophiresInputParameters

    d = worker.scratch_dir()
    path = os.path.join(d, f'c12-base-{os.getpid()}.txt')
    text = sim.render(c['params'])
    if c['last_line_comment']:
        text += '# end of file'
        if c['final_newline']:
            text += '\n'
    elif not c['final_newline']:
        text = text[:-1]
    with open(path, 'w', encoding='UTF-8', newline='') as f:
        f.write(text)
    want = sim.run_params(gen.merge(c['params'], c['overrides']), want_report=True)
    case = dict(c)
    labels = ['client', 'base_without_final_newline' if not c['final_newline'] else 'base_with_final_newline']
    stash_cwd, stash_argv = os.getcwd(), sys.argv
    got_exc, res = None, None
    try:
        with worker.quiet():
            ip = GeophiresInputParameters(from_file_path=path, params=dict((a, b) for a, b in c['overrides']))
            res = GeophiresXClient(enable_caching=False).get_geophires_result(ip)
    except BaseException as e:
        if isinstance(e, (KeyboardInterrupt, MemoryError)):
            raise
        got_exc = sim._exc_info(e)
    finally:
        sys.argv = stash_argv
        os.chdir(stash_cwd)
    if not want.ok:
        rec.case(case, nontrivial=False, labels=['client_rejected_reference'])
        return
    rec.case(case, nontrivial=True, labels=labels, key=[c['params'], c['overrides'], c['final_newline'], c['last_line_comment']],
             sample={'family': c['family'], 'overrides': c['overrides'], 'final_newline': c['final_newline']})
    if got_exc:
        rec.violation('client_override', case, {'error': got_exc, 'final_newline': c['final_newline']}, outcome='request_failed',
                      final_newline=str(c['final_newline']))
        return
    with open(res.output_file_path, encoding='UTF-8') as f:
        got_text = f.read()
    strip = lambda t: [ln for ln in t.splitlines() if not any(k in ln for k in ('Simulation Date', 'Simulation Time', 'Calculation Time', 'GEOPHIRES Version'))]
    if strip(got_text) != strip(want.report):
        diff = [(a, b) for a, b in zip(strip(got_text), strip(want.report)) if a != b][:3]
        rec.violation('client_override', case, {'first_differences': diff}, outcome='override_does_not_govern',
                      final_newline=str(c['final_newline']))
    _eval_client_duplicates(c, rec)


def _eval_client_duplicates(c, rec):
    """one caching client, two requests holding the same set of lines with a repeated parameter in opposite order:
    each must be answered according to its own last occurrence"""
    worker.init_worker()
    from geophires_x_client import GeophiresXClient, GeophiresInputParameters

    name, v2 = c['overrides'][0]
    v1 = dict((a, b) for a, b in c['params'])[name]
    rest = [p for p in c['params'] if p[0] != name]
    texts = [sim.render([[name, v1]] + rest + [[name, v2]]), sim.render([[name, v2]] + rest + [[name, v1]])]
    wants = [sim.run_params(rest + [[name, v2]], want_report=True), sim.run_params(rest + [[name, v1]], want_report=True)]
    case = dict(c, kind='client_dup')
    if not (wants[0].ok and wants[1].ok):
        rec.case(case, nontrivial=False, labels=['client_dup_rejected_reference'])
        return
    rec.case(case, nontrivial=True, labels=['client_duplicate_order'], key=[c['params'], name, v2, 'dup'],
             sample={'family': c['family'], 'duplicated': name, 'values': [v1, v2]})
    client = GeophiresXClient()  # caching on (the default)
    strip = lambda t: [ln for ln in t.splitlines() if not any(k in ln for k in ('Simulation Date', 'Simulation Time', 'Calculation Time', 'GEOPHIRES Version'))]
    d = worker.scratch_dir()
    stash_cwd, stash_argv = os.getcwd(), sys.argv
    try:
        for i, text in enumerate(texts):
            path = os.path.join(d, f'c12-dup{i}-{os.getpid()}.txt')
            with open(path, 'w', encoding='UTF-8') as f:
                f.write(text)
            try:
                with worker.quiet():
                    res = client.get_geophires_result(GeophiresInputParameters(from_file_path=path))
                with open(res.output_file_path, encoding='UTF-8') as f:
                    got = f.read()
            except BaseException as e:
                if isinstance(e, (KeyboardInterrupt, MemoryError)):
                    raise
                rec.violation('client_duplicate_order', case, {'request': i, 'error': sim._exc_info(e)}, outcome='request_failed')
                return
            if strip(got) != strip(wants[i].report):
                diff = [(a, b) for a, b in zip(strip(got), strip(wants[i].report)) if a != b][:3]
                rec.violation('client_duplicate_order', case, {'request': i, 'first_differences': diff}, outcome='last_occurrence_does_not_govern',
                              request=str(i))
                return
    finally:
        sys.argv = stash_argv
        os.chdir(stash_cwd)


# ------------------------------------------------------------------ tokenizer differential

NAMES = ['Reservoir Depth', 'Gradient 1', 'End-Use Option', 'AddOn CAPEX 1', 'Units:Total Capital Cost', 'Plant Lifetime', 'x', '']
VALUES = ['3', ' 3.5', '50 degC', '1e9', 'True', 'Examples/file.csv', '', '-1', '4700 feet', '0.05,0.06']
SEPS = [',', ', ', ' ,', ',,', ' , ']
PIECES = NAMES + VALUES + SEPS + ['#', '--', '*', ' ', '\t', '\n', '\r\n', '\r', '---[km]', 'comment, with comma', '\n\n', '\x0b', '\x0c',
                                  ' ', '\x1c', '\x85']


def ref_tokenize(text):
    """independent reading of the documented grammar -> ordered list of (name, value) with last occurrence governing
    (position of first occurrence kept, as a dict would)"""
    # the file is read in text mode with universal newlines: \\n, \\r\\n and \\r end a line, nothing else does
    lines = text.replace('\r\n', '\n').replace('\r', '\n').split('\n')
    out = {}
    for raw in lines:
        line = raw.strip()
        if line.startswith('#') or line.startswith('--') or line.startswith('*'):
            continue
        parts = line.split(',')
        if len(parts) < 2:
            continue
        out[parts[0].strip()] = parts[1].strip()
    return list(out.items())


def impl_tokenize(text):
    worker.init_worker()
    from geophires_x.GeoPHIRESUtils import read_input_file

    d = worker.scratch_dir()
    path = os.path.join(d, f'c12-tok-{os.getpid()}.txt')
    with open(path, 'w', encoding='UTF-8', newline='') as f:
        f.write(text)
    dd = {}
    with worker.quiet():
        read_input_file(dd, input_file_name=path)
    return [(k, v.sValue) for k, v in dd.items()], dd


token_texts = st.lists(st.sampled_from(PIECES), min_size=0, max_size=40).map(''.join)


def _eval_token(text, rec):
    case = {'kind': 'token', 'text': text}
    try:
        got, dd = impl_tokenize(text)
    except Exception as e:
        rec.case(case, nontrivial=True, key=text)
        rec.violation('tokenizer_raises', case, {'error': f'{type(e).__name__}: {e}'})
        return
    want = ref_tokenize(text)
    nt = len(want) >= 2 and any(ch in text for ch in '#*-')
    rec.case(case, nontrivial=nt, labels=['token'] + (['token_crlf'] if '\r' in text else []), key=text,
             sample={'text': text[:200], 'entries': want[:5]})
    if got != want:
        rec.violation('tokenizer_disagrees_with_grammar', case, {'implementation': got[:8], 'reference': want[:8]})
    for k, v in dd.items():
        if v.Name != k:
            rec.violation('tokenizer_entry_name_mismatch', case, {'key': k, 'Name': v.Name})


def _atheris(spec, rec):
    """coverage-guided byte fuzzing of the same differential in subprocesses (libFuzzer ends its process itself);
    falls back to Hypothesis text over the same target when atheris cannot be loaded, and says so in evidence"""
    import json
    import subprocess
    from .. import VERIF_DIR, SRC_DIR
    d = worker.scratch_dir() or '.'
    worker.init_worker()
    d = worker.scratch_dir()
    env = dict(os.environ, PYTHONPATH=VERIF_DIR, GXV_SRC=SRC_DIR)
    probe = subprocess.run([sys.executable, '-c', 'import sys; sys.path.insert(0, %r); import atheris' % os.path.join(VERIF_DIR, '.deps')],
                           capture_output=True, env=env)
    if probe.returncode != 0:
        rec.label('atheris_unavailable_fell_back_to_hypothesis_text')

        def fn(t):
            if not rec.out_of_time():
                _eval_token(t, rec)
        drive(st.text(alphabet=st.sampled_from(list('#-*, \t\r\nab1.')), max_size=60), fn, 20000, spec['seed'] * 7 + 1)
        return
    procs = []
    for i in range(spec.get('procs', 8)):
        out = os.path.join(d, f'fuzz{i}.json')
        cmd = [sys.executable, '-m', 'gxv.fuzz_c12', '--runs', str(spec['runs'] // spec.get('procs', 8)), '--seed', str(spec['seed'] * 100 + i + 1), '--out', out]
        if i == 0:  # one campaign from an empty corpus
            empty = os.path.join(d, 'empty_corpus')
            os.makedirs(empty, exist_ok=True)
            cmd += ['--corpus', empty]
        procs.append((subprocess.Popen(cmd, cwd=VERIF_DIR, env=env, stdout=subprocess.DEVNULL, stderr=subprocess.DEVNULL), out))
    for pr, out in procs:
        try:
            pr.wait(timeout=max(60, (rec.deadline or 0) - __import__('time').time() + 120) if rec.deadline else None)
        except subprocess.TimeoutExpired:
            pr.kill()
            rec.budget_exhausted = True
        try:
            with open(out) as f:
                stt = json.load(f)
        except (OSError, ValueError):
            rec.label('atheris_campaign_no_stats')
            continue
        rec.evaluations += stt['executions']
        rec.count('atheris_executions', stt['executions'])
        rec.count('atheris_decoded_inputs', stt['decoded'])
        rec.count('atheris_nontrivial_inputs', stt['nontrivial'])
        rec.label('atheris_campaign')
        for t in stt['samples'][:2]:
            rec.nontrivial.add('fz' + str(hash(t)))
            if len(rec.samples) < 8:
                rec.samples.append({'kind': 'atheris', 'text': t})
        if stt.get('mismatch'):
            _eval_token(stt['mismatch']['text'], rec)  # re-judge in-process so the violation record is the usual one
            if not rec.violations:
                rec.violation('tokenizer_disagrees_with_grammar', {'kind': 'token', 'text': stt['mismatch']['text']}, stt['mismatch'])


def run_shard(spec, rec):
    k = spec['kind']
    if k == 'atheris':
        _atheris(spec, rec)
        return
    strat, ev = {'layout': (layout_cases(spec.get('tier', 'quick')), _eval_layout), 'client': (client_cases(), _eval_client),
                 'token': (token_texts, _eval_token)}[k]

    def fn(c):
        if rec.out_of_time():
            return
        ev(c, rec)
    drive(strat, fn, spec['n'], spec['seed'])


def evaluate(case, rec):
    k = case.get('kind')
    if k == 'layout':
        _eval_layout(case, rec)
    elif k == 'client':
        _eval_client(case, rec)
    elif k == 'client_dup':
        _eval_client_duplicates(case, rec)
    else:
        _eval_token(case['text'], rec)


def shrink_candidates(case):
    if case.get('kind') == 'layout':
        lines = case['text'].replace('\r\n', '\n').replace('\r', '\n').split('\n')
        for i in range(len(lines)):
            c2 = dict(case)
            c2['text'] = '\n'.join(lines[:i] + lines[i + 1:])
            kept = set(ln.split(',')[0].strip() for ln in lines[:i] + lines[i + 1:])
            c2['params'] = [p for p in case['params'] if p[0] in kept]
            yield c2
