"""C10 - the client returns exactly what the report says (fields, units, tables), identically under every hash seed;
the CSV export carries the same values; the JSON written next to the report carries the printed quantities."""
import csv
import glob
import io
import json
import os
import random
import re
import subprocess
import sys

import numpy as np
from hypothesis import strategies as st

from .. import gen, sim, snapshot, worker, SRC_DIR, EXAMPLES_DIR
from ..report import Report, to_float, decimals_of
from ..runner import drive
from . import c09

ID = 'C10'
LEVEL = 'exploration'
BUDGET_S = {'quick': 300, 'thorough': 1500}
RULE = ('reports from three sources: (1) generated runs (C09 generator incl. add-ons, S-DAC-GT, carbon, overpressure; extremes '
        'driven on purpose: huge costs / well counts / flow, negative NPV, N/A payback, 100-year tables), (2) writer-level '
        'fuzzing - after Calculate() the observer rescales the numeric outputs (negative, 1e-9..1e9, keeping lengths and types) '
        'with a Hypothesis-drawn seed and the real PrintOutputs writes them, (3) the committed example .out files. Oracle: '
        'differential of GeophiresXResult(report).result against the independent section-scoped tokenizer: value and unit of '
        'every exposed field equal the line of its own section (or the unique line elsewhere), no field silently dropped, '
        'tables equal row by row and cell by cell, identical structure under PYTHONHASHSEED 0..3 (parsed in subprocesses), '
        'as_csv() carries the same values, the side-car JSON carries the printed quantities at the printed precision. '
        'Non-trivial = a label matching more than one line, or a field overflowing its column, or an N/A, or a table with >= 15 columns.')
ASSUMPTIONS = ['a client field printed only in another section is accepted when that line is unique in the report (the client is not section-aware by design)',
               'writer-fuzzed values keep array lengths and types; NaN/inf are not injected']

TABLE_OF = {'POWER GENERATION PROFILE': ['HEATING, COOLING AND/OR ELECTRICITY PRODUCTION PROFILE', 'POWER GENERATION PROFILE'],
            'HEAT AND/OR ELECTRICITY EXTRACTION AND GENERATION PROFILE': ['ANNUAL HEATING, COOLING AND/OR ELECTRICITY PRODUCTION PROFILE',
                                                                          'HEAT AND/OR ELECTRICITY EXTRACTION AND GENERATION PROFILE'],
            'REVENUE & CASHFLOW PROFILE': ['REVENUE & CASHFLOW PROFILE'], 'EXTENDED ECONOMIC PROFILE': ['EXTENDED ECONOMIC PROFILE'],
            'S-DAC-GT PROFILE': ['S-DAC-GT PROFILE']}

PARSER = r'''
import sys, json, os
sys.path.insert(0, %(src)r)
import logging; logging.disable(logging.CRITICAL)
from geophires_x_client.geophires_x_result import GeophiresXResult
out = {}
for p in sys.argv[1:]:
    try:
        r = GeophiresXResult(p)
        d = {k: v for k, v in r.result.items() if k != 'metadata'}
        out[os.path.basename(p)] = json.dumps(d, sort_keys=False, default=str)
    except BaseException as e:
        out[os.path.basename(p)] = 'ERROR ' + type(e).__name__ + ': ' + str(e)[:200]
print('GXVJSON' + json.dumps(out))
'''


def plan(tier, seed, shards):
    q = tier == 'quick'
    specs = [{'kind': 'examples'}]
    for s in range(shards):
        specs.append({'kind': 'real', 'n': 50 if q else 1200, 'seed': seed * 1000 + s, 'tier': tier})
        specs.append({'kind': 'fuzz', 'n': 50 if q else 1200, 'seed': seed * 1000 + 100 + s, 'tier': tier})
    return specs


@st.composite
def real_cases(draw, tier):
    c = draw(c09.strategy(tier))
    params = c['params']
    if draw(st.integers(0, 2)) == 0:
        ext = draw(st.sampled_from(['huge_cost', 'many_wells', 'long_life', 'huge_flow']))
        blk = {'huge_cost': [['Total Capital Cost', '999.9'], ['Total O&M Cost', '99.9']],
               'many_wells': [['Number of Production Wells', '200'], ['Number of Injection Wells', '200']],
               'long_life': [['Plant Lifetime', '100'], ['Time steps per year', '1']],
               'huge_flow': [['Production Flow Rate per Well', '500'], ['Starting Electricity Sale Price', '5'], ['Ending Electricity Sale Price', '50'],
                             ['Electricity Escalation Rate Per Year', '2']]}[ext]
        params = gen.merge(params, blk)
        c = dict(c, labels=c.get('labels', []) + ['extreme:' + ext])
    if draw(st.integers(0, 11)) == 0:
        # both extensions in one run: the report gets both extra sections and the side-car JSON must carry both
        names = set(p[0] for p in params)
        if not any(n.startswith('AddOn ') for n in names):
            params = gen.merge(gen.drop_param(params, 'Construction Years'), gen.ADDONS)
        params = gen.merge(params, gen.SDAC)
        c = dict(c, labels=c.get('labels', []) + ['addons_and_sdacgt'])
    return dict(c, params=params, kind='real')


@st.composite
def fuzz_cases(draw, tier):
    c = draw(c09.strategy(tier))
    return dict(c, kind='fuzz', fuzz_seed=draw(st.integers(0, 2 ** 31)), mode=draw(st.sampled_from(['neg', 'huge', 'tiny', 'mixed', 'mixed'])))


def _fuzz_observer(seed, mode):
    def obs(model):
        from geophires_x.Parameter import OutputParameter
        rnd = random.Random(seed)
        for comp in ('reserv', 'wellbores', 'surfaceplant', 'economics', 'addeconomics', 'sdacgteconomics'):
            obj = getattr(model, comp, None)
            if obj is None:
                continue
            for attr, p in list(vars(obj).items()):
                if not isinstance(p, OutputParameter):
                    continue
                if rnd.random() < 0.5:
                    continue
                if mode == 'neg':
                    f = -1.0
                elif mode == 'huge':
                    f = 10 ** rnd.uniform(2, 7)
                elif mode == 'tiny':
                    f = 10 ** rnd.uniform(-9, -2)
                else:
                    f = rnd.choice([-1, 1]) * 10 ** rnd.uniform(-6, 7)
                v = p.value
                try:
                    if isinstance(v, bool) or isinstance(v, str) or v is None:
                        continue
                    if isinstance(v, (int, float)):
                        p.value = type(v)(v * f) if isinstance(v, float) else v
                    elif isinstance(v, np.ndarray) and v.dtype.kind == 'f':
                        p.value = v * f
                    elif isinstance(v, list) and v and all(isinstance(x, float) for x in v):
                        p.value = [x * f for x in v]
                except (OverflowError, ValueError, TypeError):
                    pass
    return obs


# ------------------------------------------------------------------ oracle on one report

def num_equal(client_v, tok):
    v = to_float(tok)
    if client_v is None:
        # N/A, and the degenerate 'nan' / 'inf' tokens of a run that computed no number, are returned as None
        return tok == 'N/A' or v is None or v != v or abs(v) == float('inf')
    if v is None:
        return False
    if v != v:
        return client_v != client_v if isinstance(client_v, float) else False
    return float(client_v) == v


def check_report(path, text, result, csv_text, rec, case, labels):
    """compare client result (dict) with the tokenizer's view of `text`"""
    rep = Report(text)

    def bad(clause, detail, **sig):
        rec.violation(clause, case, detail, **sig)

    all_entries = {}
    for sec, e in rep.entries():
        all_entries.setdefault(e['label'], []).append((sec, e))
    nt = False
    for category, fields in result.items():
        if not isinstance(fields, dict):
            continue
        for field, vu in fields.items():
            cands = all_entries.get(field, [])
            own = [e for sec, e in cands if sec == category]
            if isinstance(vu, dict) and vu.get('unit', 0) is None and isinstance(vu.get('value'), str) and not own and not cands:
                continue  # string-valued fields (End-Use Option etc.) are not 'label: number' lines
            if vu is None:
                if own:
                    bad('field_dropped', {'category': category, 'field': field, 'line': own[0]['raw'].strip()}, category=category, field=field)
                elif cands and all(to_float(e['tok']) is not None and to_float(e['tok']) == to_float(e['tok'])
                                   and abs(to_float(e['tok'])) != float('inf') for _, e in cands):
                    # the label is printed with a number, only under another banner (e.g. closed-loop style reports print the
                    # engineering / cost lines under one 'AGS/CLGS STYLE OUTPUT' banner): the client exposes such lines too
                    bad('field_dropped', {'category': category, 'field': field, 'line': cands[0][1]['raw'].strip(), 'printed_under': cands[0][0]},
                        category=category, field=field)
                continue
            if not isinstance(vu, dict) or isinstance(vu.get('value'), str):
                continue
            if len(cands) > 1:
                nt = True
            pool = own if own else [e for sec, e in cands]
            if not pool:
                bad('value_without_line', {'category': category, 'field': field, 'client': vu}, category=category, field=field)
                continue
            distinct = {(e['tok'], e['unit']) for e in pool}
            ok = any(num_equal(vu['value'], e['tok']) and (vu.get('unit') or '') in (e['unit'], 'count' if not e['unit'] else e['unit']) for e in pool)
            if not ok:
                bad('field_value_or_unit', {'category': category, 'field': field, 'client': vu, 'lines': [e['raw'].strip() for e in pool][:3],
                                            'own_section': bool(own)}, category=category, field=field)
            if any(e['tok'] == 'N/A' for e in pool):
                nt = True
            if any(len(e['tok']) > 10 for e in pool):
                nt = True
    # ---- tables
    for cat, titles in TABLE_OF.items():
        tb = None
        for t in titles:
            if t in rep.tables:
                tb = rep.tables[t]
                break
        client_tb = result.get(cat)
        if tb is None:
            continue
        # rows the report visibly has (start with a year number) vs rows the tokenizer could split into numbers
        if client_tb is None or not isinstance(client_tb, list) or len(client_tb) < 1:
            bad('table_not_extracted', {'table': cat}, table=cat)
            continue
        hdr, rows = client_tb[0], client_tb[1:]
        if len(tb['rows']) and len(tb['rows'][0]) >= 15:
            nt = True
        if len(rows) != len(tb['rows']):
            bad('table_row_count', {'table': cat, 'client_rows': len(rows), 'report_rows': len(tb['rows'])}, table=cat)
            continue
        for i, (cr, rr) in enumerate(zip(rows, tb['rows'])):
            if len(cr) != len(rr) or len(cr) != len(hdr):
                bad('table_shape', {'table': cat, 'row': i, 'client_cells': len(cr), 'report_cells': len(rr), 'header_cells': len(hdr),
                                    'raw': tb['raw_rows'][i].strip()[:140]}, table=cat)
                break
            mism = [k for k, (cv, tok) in enumerate(zip(cr, rr)) if not num_equal(cv if cv != '' else None, tok)]
            if mism:
                bad('table_cell', {'table': cat, 'row': i, 'column': mism[0], 'client': cr[mism[0]], 'report': rr[mism[0]],
                                   'raw': tb['raw_rows'][i].strip()[:140]}, table=cat)
                break
    # malformed table rows in the report itself make a faithful parse impossible: say so
    known_titles = {t for ts in TABLE_OF.values() for t in ts}
    for title, tb in rep.tables.items():
        if title not in known_titles:
            continue  # legacy tables (CCUS PROFILE) legitimately leave cells blank
        widths = {len(r_) for r_ in tb['rows']}
        if len(widths) > 1:
            bad('report_table_rows_uneven', {'table': title, 'cell_counts': sorted(widths)}, table=title)
    # ---- csv
    if csv_text is not None:
        rows = list(csv.reader(io.StringIO(csv_text)))
        got = {}
        for rw in rows[1:]:
            if len(rw) != 5:
                bad('csv_row_shape', {'row': rw}, where='csv')
                break
            got.setdefault((rw[0], rw[1].replace('\\,', ','), rw[2]), []).append((rw[3], rw[4]))
        for category, fields in result.items():
            if category == 'metadata':
                continue
            if isinstance(fields, dict):
                for field, vu in fields.items():
                    if vu is None:
                        continue
                    v = vu['value'] if isinstance(vu, dict) else vu
                    u = (vu.get('unit') if isinstance(vu, dict) else '') or ''
                    if (str(v) if v is not None else '', str(u)) not in got.get((category, field, ''), []):
                        bad('csv_value', {'category': category, 'field': field, 'result': vu, 'csv': got.get((category, field, ''))}, where='csv_field')
                        break
            elif isinstance(fields, list) and fields:
                hdr = fields[0]
                for row in fields[1:]:
                    for k in range(1, len(hdr)):
                        name = hdr[k].split(' (')[0]
                        cell = row[k]
                        vals = [x[0] for x in got.get((category, name, str(row[0])), [])]
                        if (str(cell) if cell is not None else '') not in vals:
                            bad('csv_value', {'category': category, 'column': hdr[k], 'year': row[0], 'result': cell, 'csv': vals[:3]}, where='csv_table')
                            break
                    else:
                        continue
                    break
    return nt


def check_json(text, js, rec, case):
    """the side-car JSON must carry the quantity each matching report line prints"""
    if not js:
        return
    rep = Report(text)
    for sec, e in rep.entries():
        if sec in ('PREAMBLE', 'CASE REPORT') or e['value'] is None:
            continue
        ent = js.get(e['label'])
        if not isinstance(ent, dict) or not isinstance(ent.get('value'), (int, float)) or isinstance(ent.get('value'), bool):
            continue
        if not c09.cell_ok(e['tok'], float(ent['value'])):
            # scale differences (fractions printed as %) are the writer's business: only flag when no simple scale explains it
            if any(c09.cell_ok(e['tok'], float(ent['value']) * s) for s in (100.0, 0.01, 1000.0, 0.001)):
                continue
            rec.violation('json_differs_from_report', case, {'label': e['label'], 'section': sec, 'printed': e['tok'], 'json': ent['value']},
                          label=e['label'])


_MAP = {}


def _line_map():
    if 'm' not in _MAP:
        with open(os.path.join(os.path.dirname(os.path.dirname(__file__)), 'report_map.json')) as f:
            _MAP['m'] = json.load(f)
    return _MAP['m']


def check_json_quantities(text, js, snap, rec, case):
    """every scalar line of the report that shows one output of the run (C09's line table: section||label -> module.attribute)
    must have that output in the side-car JSON, under the output's name, with the value the run computed"""
    if not js or snap is None:
        return
    rep = Report(text)
    by_name = {}
    for sec in snapshot.SECTIONS:
        for attr, p in (snap[sec] or {}).items() if snap.get(sec) else ():
            if attr != '__class__' and getattr(p, 'kind', None) == 'out':
                by_name.setdefault(p.name, []).append(p.value)
    n = 0
    for sec, e in rep.entries():
        if e['value'] is None:
            continue
        spec = _line_map().get(f'{sec}||{e["label"]}')
        if not spec or spec.get('n_candidates') != 1:
            continue
        mod_attr, kind, _ = spec['candidates'][0].split('|')
        mod, attr = mod_attr.split('.', 1)
        p = (snap.get(mod) or {}).get(attr) if snap.get(mod) else None
        if p is None or getattr(p, 'kind', None) != 'out' or kind != 'scalar' or not isinstance(p.value, (int, float)) or isinstance(p.value, bool):
            continue
        n += 1
        ent = js.get(p.name)
        if not isinstance(ent, dict) or 'value' not in ent:
            rec.violation('json_lacks_printed_quantity', case, {'section': sec, 'label': e['label'], 'output_name': p.name, 'printed': e['tok']},
                          section=sec, label=e['label'])
            continue
        jv = ent['value']
        # the same name may be carried by outputs of two modules (LCOH of the core and of the S-DAC-GT economics): either value
        ok = any(isinstance(v, (int, float)) and isinstance(jv, (int, float)) and
                 (v == jv or abs(float(v) - float(jv)) <= 1e-9 * max(abs(float(v)), abs(float(jv)))) or (v != v and jv != jv)
                 for v in by_name.get(p.name, []))
        if not ok and isinstance(jv, (int, float)):
            rec.violation('json_differs_from_report', case, {'label': e['label'], 'section': sec, 'printed': e['tok'], 'json': jv,
                                                             'computed': p.value, 'output_name': p.name}, label=e['label'])
    rec.count('report_lines_checked_against_json', n)


def hash_seed_stability(paths, rec, case_of):
    """parse all reports under PYTHONHASHSEED 0..3 in subprocesses; structures must be identical"""
    if not paths:
        return
    outs = []
    for hs in (0, 1, 2, 3):
        env = dict(os.environ, PYTHONHASHSEED=str(hs), PYTHONDONTWRITEBYTECODE='1')
        env.pop('PYTHONPATH', None)
        pr = subprocess.run([sys.executable, '-c', PARSER % {'src': SRC_DIR}] + paths, capture_output=True, text=True, env=env, timeout=900)
        d = None
        for ln in pr.stdout.splitlines():
            if ln.startswith('GXVJSON'):
                d = json.loads(ln[7:])
        outs.append(d or {})
    for p in paths:
        b = os.path.basename(p)
        vals = [o.get(b) for o in outs]
        if len(set(vals)) > 1:
            diff = None
            try:
                a0, a1 = json.loads(vals[0]), json.loads([v for v in vals if v != vals[0]][0])
                for cat in a0:
                    if a0[cat] != a1.get(cat):
                        if isinstance(a0[cat], dict):
                            diff = {cat: {k: (a0[cat][k], a1[cat].get(k)) for k in a0[cat] if a0[cat][k] != a1[cat].get(k)}}
                        else:
                            diff = {cat: 'table differs'}
                        break
            except Exception:
                diff = {'raw': [str(v)[:120] for v in vals]}
            rec.violation('result_depends_on_hash_seed', case_of(p), {'difference': diff}, kind='hash_seed')
    rec.count('reports_parsed_under_4_hash_seeds', len(paths))


# ------------------------------------------------------------------ shards

_SIDE = {}


def _client_parse(path):
    worker.init_worker()
    from geophires_x_client.geophires_x_result import GeophiresXResult
    import copy
    # every report of this worker is parsed from one and the same path (rewritten case after case): what the client returns
    # must be the report that is at the path now
    import shutil
    fixed = os.path.join(worker.scratch_dir(), f'c10-report-under-parse-{os.getpid()}.out')
    decoy = os.path.join(EXAMPLES_DIR, 'example1.out')
    with worker.quiet():
        if os.path.exists(decoy):
            # a different report is parsed from that path first, so that a single replayed case holds the whole history
            shutil.copyfile(decoy, fixed)
            try:
                GeophiresXResult(fixed)
            except Exception:
                pass
        shutil.copyfile(path, fixed)
        r = GeophiresXResult(fixed)
        before = copy.deepcopy({k: v for k, v in r.result.items() if k != 'metadata'})
        csv1 = r.as_csv()
        after = {k: v for k, v in r.result.items() if k != 'metadata'}
        side = None
        if json.dumps(before, default=str) != json.dumps(after, default=str):
            side = 'result changed by as_csv()'
        else:
            try:
                if r.as_csv() != csv1:
                    side = 'second as_csv() differs from the first'
            except BaseException as e:
                if isinstance(e, (KeyboardInterrupt, MemoryError)):
                    raise
                side = f'second as_csv() raises {type(e).__name__}'
        _SIDE[path] = side
        return before, csv1


def _eval_generated(c, rec, keep):
    observer = _fuzz_observer(c['fuzz_seed'], c['mode']) if c['kind'] == 'fuzz' else None
    r = sim.run_params(c['params'], want_report=True, observer=observer, keep_files=True)
    case = {k: c.get(k) for k in ('kind', 'family', 'params', 'fuzz_seed', 'mode')}
    labels = [f'source:{c["kind"]}'] + [l for l in c.get('labels', []) if l.startswith('extreme')] + ([f'mode:{c["mode"]}'] if c['kind'] == 'fuzz' else [])
    if not r.ok or not r.report:
        rec.case(case, nontrivial=False, labels=['rejected:' + c['kind']])
        for p in (r.inp, r.out, r.out[:-4] + '.json'):
            if os.path.exists(p):
                os.remove(p)
        return
    try:
        result, csv_text = _client_parse(r.out)
    except BaseException as e:
        if isinstance(e, (KeyboardInterrupt, MemoryError)):
            raise
        rec.case(case, nontrivial=True, labels=labels, key=case)
        rec.violation('client_cannot_parse_report', case, {'error': f'{type(e).__name__}: {e}'[:300]}, error=type(e).__name__)
        return
    if _SIDE.pop(r.out, None):
        rec.violation('yields_different_structure_on_later_use', case, {'what': 'as_csv() is not read-only on the parsed result'}, via='as_csv')
    nt = check_report(r.out, r.report, result, csv_text, rec, case, labels)
    if c['kind'] == 'real':
        check_json(r.report, r.json, rec, case)
        if not any(p[0].startswith('Units:') for p in c['params']):
            check_json_quantities(r.report, r.json, r.snap, rec, case)
    rec.case(case, nontrivial=nt, labels=labels, key=case, sample={'kind': c['kind'], 'family': c.get('family'), 'mode': c.get('mode'),
                                                                   'report_lines': r.report.count('\n')})
    keep.append((r.out, case))
    for p in (r.inp, r.out[:-4] + '.json'):
        if os.path.exists(p):
            os.remove(p)


def run_shard(spec, rec):
    if spec['kind'] == 'examples':
        paths = sorted(glob.glob(os.path.join(EXAMPLES_DIR, '*.out'))) + sorted(glob.glob(os.path.join(os.path.dirname(EXAMPLES_DIR), '*.out')))
        for p in paths:
            with open(p) as f:
                text = f.read()
            case = {'kind': 'example_file', 'file': os.path.relpath(p, os.path.dirname(os.path.dirname(EXAMPLES_DIR)))}
            try:
                result, csv_text = _client_parse(p)
            except BaseException as e:
                if isinstance(e, (KeyboardInterrupt, MemoryError)):
                    raise
                rec.case(case, nontrivial=True, labels=['source:example_file'], key=case)
                rec.violation('client_cannot_parse_report', case, {'error': f'{type(e).__name__}: {e}'[:300]}, error=type(e).__name__)
                continue
            if _SIDE.pop(p, None):
                rec.violation('yields_different_structure_on_later_use', case, {'what': 'as_csv() is not read-only on the parsed result'}, via='as_csv')
            nt = check_report(p, text, result, csv_text, rec, case, [])
            rec.case(case, nontrivial=nt, labels=['source:example_file'], key=case, sample=case)
        hash_seed_stability(paths, rec, lambda p: {'kind': 'example_file', 'file': os.path.basename(p)})
        return
    keep = []

    def fn(c):
        if rec.out_of_time():
            return
        _eval_generated(c, rec, keep)
    strat = real_cases(spec['tier']) if spec['kind'] == 'real' else fuzz_cases(spec['tier'])
    drive(strat, fn, spec['n'], spec['seed'])
    cases = dict(keep)
    hash_seed_stability([p for p, _ in keep], rec, lambda p: cases.get(p, {'kind': 'generated'}))
    for p, _ in keep:
        if os.path.exists(p):
            os.remove(p)


def evaluate(case, rec):
    if case.get('kind') == 'example_file':
        run_shard({'kind': 'examples'}, rec)
        return
    keep = []
    _eval_generated(case, rec, keep)
    cases = dict(keep)
    hash_seed_stability([p for p, _ in keep], rec, lambda p: cases.get(p, {}))


NO_SHRINK = True
