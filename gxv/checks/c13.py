"""C13 - Monte Carlo iterations are independent draws from the requested distributions: distinct continuous vectors,
samples inside the support, no replication across worker processes, one row per successful iteration."""
import collections
import os
import shutil
import tempfile

from hypothesis import strategies as st

from .. import mc, worker
from ..runner import drive

ID = 'C13'
LEVEL = 'exploration'
BUDGET_S = {'quick': 420, 'thorough': 1800}
RULE = ('Hypothesis settings files: 1-6 INPUT lines mixing normal / uniform / triangular / lognormal / binomial over parameters of '
        'a fast base input (HIP-RA-X, and GEOPHIRES with the percentage-drawdown reservoir), supports inside the valid ranges so '
        'every iteration succeeds, small-magnitude and narrow distributions included; 1-3 OUTPUT labels occurring once in the '
        'report; ITERATIONS 1..60 (..200 thorough); worker count w in {1,2,3,5,16,33} imposed by patching os.cpu_count in the '
        'process that calls MC_GeoPHIRES3.main. Oracle on the parsed result rows (strict grammar): vectors of continuous '
        'inputs pairwise distinct, every sample in its support, rows == ITERATIONS, and no sample vector shared between rows. '
        'Non-trivial = ITERATIONS >= 2 x min(w, ITERATIONS...) i.e. some worker runs at least two iterations, and >= 1 '
        'continuous input; distinct by settings. One case in four carries a fault mix (one input straddling a validity bound, so a '
        'subset of the iterations fails): there rows == number of simulations that returned a result, counted by a harness-side '
        'wrapper around the client call inherited by the forked workers. One case in three is preceded, in the same process, by another '
        'Monte Carlo request of 1, 2 or 5 iterations on the same paths.')
ASSUMPTIONS = ['the OS interleaves the workers: schedules are sampled by varying the worker count and load, not enumerated',
               'all iterations valid by construction (distribution supports inside the declared ranges)']


def plan(tier, seed, shards):
    n = 4 if tier == 'quick' else 36
    return [{'kind': 'mc', 'n': n, 'seed': seed * 1000 + s, 'tier': tier} for s in range(min(shards, 12))]


def evaluate(s, rec):
    worker.init_worker()
    d = tempfile.mkdtemp(prefix='c13-', dir=worker.scratch_dir())
    try:
        r = mc.run_mc(s, d)
    finally:
        pass
    case = {k: s.get(k) for k in ('program', 'inputs', 'outputs', 'iterations', 'workers', 'fault', 'final_newline', 'prelude')}
    sig = dict(program=s['program'])

    def bad(clause, detail, **extra):
        rec.violation(clause, case, detail, **sig, **extra)

    cont = [i for i in s['inputs'] if i[1] != 'binomial']
    labels = [f'program:{s["program"]}', f'workers:{s["workers"]}'] + (['fault_mix'] if s.get('fault') else []) + ([f'earlier_request_in_same_process:{s["prelude"][2]}_iterations'] if s.get('prelude') else []) + sorted(set('dist:' + i[1] for i in s['inputs']))
    if not s.get('final_newline', True):
        labels.append('base_without_final_newline')
    nt = s['iterations'] >= 2 * min(s['workers'], 16) and len(cont) >= 1 or (s['workers'] <= 3 and s['iterations'] >= 2 * s['workers'] and len(cont) >= 1)
    rec.case(case, nontrivial=nt, labels=labels, key=case,
             sample={'settings': mc.settings_text(s).splitlines(), 'workers': s['workers'], 'rows': len(r.get('rows', []))})
    try:
        if not r['ok'] and 'rows' not in r:
            bad('mc_run_failed', {'error': r.get('error')})
            return
        rows = r.get('rows', [])
        parsed = [mc.parse_row(x, s) for x in rows]
        torn = [x for x, p in zip(rows, parsed) if p is None]
        if torn:
            bad('row_grammar', {'bad_rows': torn[:3], 'n_bad': len(torn)})
        good = [p for p in parsed if p]
        if s.get('fault'):
            # a subset of the iterations fails: exactly one row per simulation that returned a result (counted by the harness)
            if len(rows) != r.get('successes'):
                bad('row_count', {'rows': len(rows), 'successful_simulations': r.get('successes'), 'iterations': s['iterations'],
                                  'workers': s['workers'], 'mc_error': r.get('error')},
                    direction='fewer_than_successes' if len(rows) < r.get('successes', 0) else 'more_than_successes')
        elif len(rows) != s['iterations']:
            bad('row_count', {'rows': len(rows), 'iterations': s['iterations'], 'workers': s['workers'], 'mc_error': r.get('error')},
                direction='fewer' if len(rows) < s['iterations'] else 'more')
        if not r['ok']:
            if s.get('fault') and r.get('successes') == 0 and not rows:
                rec.label('all_iterations_failed')
            elif len(rows) == (r.get('successes') if s.get('fault') else s['iterations']) and not torn:
                # all rows are there; the driver died afterwards while summarising (e.g. zero-variance histogram of a 1e15-sized
                # output): outside this property, counted
                rec.label('summary_stage_failed_after_complete_rows')
            else:
                bad('mc_run_failed', {'error': r.get('error'), 'rows': len(rows)})
        # support
        for inp in s['inputs']:
            out = [p[1][inp[0]] for p in good if not mc.in_support(inp, p[1][inp[0]])]
            if out:
                bad('sample_outside_support', {'input': inp, 'samples': out[:5], 'n': len(out)}, dist=inp[1])
        # distinctness of continuous vectors
        if cont and good:
            vecs = collections.Counter(tuple(p[1][i[0]] for i in cont) for p in good)
            dups = {k: v for k, v in vecs.items() if v > 1}
            if dups:
                bad('duplicate_sample_vectors', {'distinct': len(vecs), 'rows': len(good), 'workers': s['workers'],
                                                 'example': list(list(dups.items())[0])}, scope='vector')
            # per-input replication (a narrow or rounded sampler collapses values even when vectors differ)
            for i in cont:
                vals = collections.Counter(p[1][i[0]] for p in good)
                if len(vals) < len(good):
                    bad('duplicate_sample_values', {'input': i, 'distinct': len(vals), 'rows': len(good)}, dist=i[1])
    finally:
        shutil.rmtree(d, ignore_errors=True)


def run_shard(spec, rec):
    def fn(s):
        if rec.out_of_time():
            return
        evaluate(s, rec)
    @st.composite
    def cases(draw):
        fault = draw(st.integers(0, 3)) == 0
        s = draw(mc.settings(fault_mix=fault, max_iter=60 if spec['tier'] == 'quick' else 200))
        if fault and s['program'] == 'HIP':
            s['iterations'] = max(s['iterations'], draw(st.integers(30, 80)))
        s['prelude'] = None
        if draw(st.integers(0, 2)) == 0:
            # history: an earlier request in the same process (1, 2 or 5 iterations - a single iteration may be executed without a pool)
            sampled = {i[0] for i in s['inputs']}
            cands = [(n, v) for n, v in ([('Reservoir Area', '82.5'), ('Reservoir Thickness', '0.375'), ('Reservoir Porosity', '15.0')] if s['program'] == 'HIP'
                                          else [('Reservoir Depth', '3.6'), ('Number of Production Wells', '3')]) if n not in sampled]
            if cands:
                s['prelude'] = list(draw(st.sampled_from(cands))) + [draw(st.sampled_from([1, 1, 2, 5]))]
        return s
    drive(cases(), fn, spec['n'], spec['seed'])


NO_SHRINK = True
