"""C08 - a run is a pure function of its input; runs (successful or failed) do not contaminate each other; the caller's
cwd and argv are left alone; a client never answers with a result computed from other content."""
import json
import os
import subprocess
import sys
import tempfile

from hypothesis import strategies as st, settings, HealthCheck, Phase, seed as hseed
from hypothesis.stateful import RuleBasedStateMachine, rule, precondition, run_state_machine_as_test

from .. import gen, sim, worker, SRC_DIR, VERIF_DIR

ID = 'C08'
LEVEL = 'exploration'
BUDGET_S = {'quick': 400, 'thorough': 1800}
RULE = ('Hypothesis rule-based state machine inside one worker process. State: working directory (3 scratch dirs), client '
        'instances (caching on/off), 4 named input files, a pool of 39 request contents (twelve of them one-line-apart siblings differing in one rock property under reservoir models 1, 2 and 3) (two sparse ones relying on the default temperature profile, two stating declared defaults explicitly, one with S-DAC-GT) (two of them the same lines with a repeated parameter in opposite order; five three-segment requests that differ only in the tail of a list-valued parameter or mix the list and the enumerated spelling of the profile) from all fast families (reservoir '
        'models 0-5 and SBT, every surface-plant class, add-ons, multi-segment) and 6 failing contents (out-of-range value, '
        'unknown option, missing profile file = bare sys.exit, division by zero in the linear-heat-sweep model, missing '
        'demand file, gradient glued by missing newline). Rules: run content through a new params object, run a named file, '
        'rewrite a file then run it, run two requests that differ in one line back to back on one client, run the entry point directly the way __main__ does, chdir, new client. Besides the machine every content is re-run in fresh interpreters under 3 (quick) / 8 (thorough) further hash seeds and must give the oracle report. Oracle: each '
        'distinct content is run once in a pristine subprocess (fresh interpreter, another PYTHONHASHSEED, another cwd); '
        'after every step the returned report must equal that content\'s pristine report (time stamps stripped), a failing '
        'content must fail, and os.getcwd() / sys.argv (identity and contents) must be what they were before the call. '
        'Non-trivial sequence = contains a failing run followed by a successful one, or a rewrite-then-rerun on a caching '
        'client, or a repeat of an earlier content after >= 2 other configurations; distinct by operation sequence.')
ASSUMPTIONS = ['sequences are bounded (<= 12 steps quick, <= 30 thorough) and drawn from a finite content pool: contamination needing a rarer pair can be missed',
               'report equality is textual after removing date/time/calculation-time/version lines']

STRIP_KEYS = ('Simulation Date', 'Simulation Time', 'Calculation Time', 'GEOPHIRES Version')


def _ex(name, extra=()):
    return gen.merge(sim.load_example_params(name), [['Print Output to Console', '0']], list(extra))


def contents():
    small = [['Plant Lifetime', '6'], ['Time steps per year', '2']]
    ok = [
        gen.merge(gen.RES4, gen.ELEC(2), gen.ECON['1']),
        gen.merge(gen.RES3, gen.HEAT, gen.ECON['2']),
        gen.merge(gen.RES4, gen.COGEN(31, 1), gen.ECON['3']),
        gen.merge(gen.RES4, gen.CHILLER, gen.ECON['1'], [['Maximum Drawdown', '0.05']]),
        gen.merge(gen.RES3, gen.HEATPUMP, gen.ECON['2']),
        gen.merge(gen.RES0, gen.ELEC(1), gen.ECON['1']),
        gen.merge(gen.RES2, gen.HEAT, gen.ECON['1'], small),
        gen.merge(gen.RES1, gen.ELEC(4), gen.ECON['2'], small),
        _ex('example5'),
        _ex('example_SBT_Lo_T', [['Plant Lifetime', '3'], ['Time steps per year', '2']]),
        gen.merge(gen.RES4, gen.ELEC(3), gen.ECON['1'], gen.ADDONS, [['Do Carbon Price Calculations', 'True'],
                                                                   ['Starting Carbon Credit Value', '0.015'], ['Ending Carbon Credit Value', '0.1']]),
        gen.merge(gen.RES4, gen.COGEN(52, 2), gen.ECON['2'], [['Number of Segments', '3'], ['Gradient 2', '40'], ['Gradient 3', '30'],
                                                            ['Thickness 1', '1'], ['Thickness 2', '1.5'], ['CHP Fraction', '0.4']]),
        gen.merge(gen.RES4, gen.DISTRICT, gen.ECON['2'], [['Plant Lifetime', '4'], ['Time steps per year', '2']]),
        gen.merge(gen.RES4, gen.ELEC(2), gen.ECON['1'], [['Gradient 1', '70'], ['Overpressure Percentage', '130'],
                                                        ['Overpressure Depletion Rate', '8'], ['Injection Reservoir Inflation Rate', '100']]),
        gen.merge(gen.RES3, gen.COGEN(42, 3), gen.ECON['1'], [['CHP Bottoming Entering Temperature', '120']]),
        # the same set of lines with a repeated parameter in opposite order (last occurrence governs): two different inputs
        [['Gradient 1', '45']] + gen.merge(gen.drop_param(gen.RES4, 'Gradient 1'), gen.ELEC(1), gen.ECON['1']) + [['Gradient 1', '65']],
        [['Gradient 1', '65']] + gen.merge(gen.drop_param(gen.RES4, 'Gradient 1'), gen.ELEC(1), gen.ECON['1']) + [['Gradient 1', '45']],
    ]
    # near-siblings: the same request except for the tail of a list-valued parameter; and the two spellings of the
    # temperature profile (list 'Gradients, a, b' and enumerated 'Gradient N') mixed in one input, whose outcome is defined by
    # the order the simulator visits its own parameters in - not by anything a hash seed may change
    seg = gen.merge(gen.drop_param(gen.RES4, 'Gradient 1'), gen.ELEC(1), gen.ECON['1'], [['Number of Segments', '3']])
    ok += [
        gen.merge(seg, [['Gradients', '40, 30, 60'], ['Thicknesses', '1, 1.2']]),
        gen.merge(seg, [['Gradients', '40, 70, 60'], ['Thicknesses', '1, 1.2']]),
        gen.merge(seg, [['Gradients', '40, 30, 60'], ['Thicknesses', '1, 0.6']]),
        gen.merge(seg, [['Gradients', '40, 30, 60'], ['Gradient 2', '70'], ['Thicknesses', '1.5, 1'], ['Thickness 1', '2']]),
        gen.merge(seg, [['Gradient 3', '25'], ['Gradients', '45, 35, 55'], ['Thickness 2', '0.7'], ['Thicknesses', '1.1, 1.3'], ['Gradient 1', '60']]),
    ]
    # sparse requests that rely on the documented defaults for the temperature profile (no 'Gradient 1' line: 50 degC/km;
    # second segment left at its default) - state left behind by an earlier request shows here
    ok += [
        gen.merge(gen.drop_param(gen.RES4, 'Gradient 1'), gen.ELEC(1), gen.ECON['1']),
        gen.merge(gen.RES4, gen.ELEC(2), gen.ECON['1'], [['Number of Segments', '2'], ['Gradient 1', '62'], ['Thickness 1', '2.2']]),
    ]
    # figures typed by the user that equal the declared defaults (where 'provided' steers a branch), and the S-DAC-GT extension
    ok += [
        gen.merge(gen.RES4, gen.ELEC(2), gen.ECON['1'], [['Overpressure Percentage', '100'], ['Overpressure Depletion Rate', '8'],
                                                        ['Injection Reservoir Inflation Rate', '100'], ['Gradient 1', '65']]),
        gen.merge(gen.RES4, gen.DISTRICT, gen.ECON['2'], [['Plant Lifetime', '4'], ['Time steps per year', '2'],
                                                         ['Total District Heating Network Cost', '10'], ['District Heating O&M Cost', '1']]),
        gen.merge(gen.RES4, gen.ELEC(1), gen.ECON['1'], gen.SDAC, [['Plant Lifetime', '6'], ['Time steps per year', '2']]),
    ]
    # one-line-apart siblings that differ in a single scalar rock / fluid property, for each analytical reservoir model: a value
    # remembered from the previous request (memo keyed on too little) shows only between such neighbours
    rock = [['Reservoir Heat Capacity', '1100'], ['Reservoir Density', '2700'], ['Reservoir Thermal Conductivity', '3.0']]
    # (a long life and a high flow rate, so that the thermal drawdown - and with it each rock property - matters to the printed figures)
    strong = [['Plant Lifetime', '25'], ['Time steps per year', '2'], ['Production Flow Rate per Well', '90']]
    for res, plant, econ, more in ((gen.RES1, gen.ELEC(4), '2', [['Number of Fractures', '6']]), (gen.RES2, gen.HEAT, '1', []),
                                   (gen.RES3, gen.ELEC(2), '1', [])):
        b0 = gen.merge(res, plant, gen.ECON[econ], strong, more, rock)
        ok += [b0, gen.set_param(b0, 'Reservoir Heat Capacity', '800'), gen.set_param(b0, 'Reservoir Density', '3000'),
               gen.set_param(b0, 'Reservoir Thermal Conductivity', '2.2')]
    bad = [
        gen.merge(gen.RES4, gen.ELEC(2), gen.ECON['1'], [['Gradient 1', '5000']]),
        gen.merge(gen.RES4, gen.ELEC(2), gen.ECON['1'], [['Reservoir Model', '99']]),
        gen.merge(_ex('example5'), [['Reservoir Output File Name', 'no/such/profile.txt']]),
        gen.merge(gen.RES2, gen.HEAT, gen.ECON['1'], small, [['Reservoir Volume Option', '1'], ['Number of Fractures', '1']]),
        gen.merge(gen.RES4, gen.DISTRICT, gen.ECON['2'], [['District Heating Demand File Name', 'Examples/no_such_demand.csv']]),
        gen.merge(gen.RES4, gen.HEAT, gen.ECON['1'], [['Plant Lifetime', '0']]),
    ]
    return [sim.render(p) for p in ok], [sim.render(p) for p in bad]


def strip_report(text):
    return [ln.rstrip() for ln in text.splitlines() if not any(k in ln for k in STRIP_KEYS)]


PRISTINE = r'''
import sys, os, json, io
sys.path.insert(0, %(src)r)
os.environ['MPLBACKEND'] = 'Agg'
import logging; logging.disable(logging.CRITICAL)
inp, out = sys.argv[1], sys.argv[2]
sys.argv = ['', inp, out]
so = sys.stdout; sys.stdout = io.StringIO()
res = {'ok': False}
try:
    import geophires_x.Model
    import geophires_x.GEOPHIRESv3 as G
    G.main(enable_geophires_logging_config=False)
    res['ok'] = True
    res['report'] = open(out, encoding='UTF-8').read()
except BaseException as e:
    res['error'] = type(e).__name__ + ': ' + str(e)[:200]
sys.stdout = so
print('GXVJSON' + json.dumps(res))
'''


def pristine(texts, workdir, hash_seeds=None):
    """run every content once in its own fresh interpreter, in parallel batches"""
    out = [None] * len(texts)
    procs = []
    for i, t in enumerate(texts):
        d = os.path.join(workdir, f'p{i}')
        os.makedirs(d, exist_ok=True)
        inp = os.path.join(d, 'in.txt')
        with open(inp, 'w', encoding='UTF-8') as f:
            f.write(t)
        env = dict(os.environ, PYTHONHASHSEED=str(hash_seeds[i] if hash_seeds else 1000 + 7 * i), TMPDIR=d, PYTHONDONTWRITEBYTECODE='1')
        env.pop('PYTHONPATH', None)
        procs.append((i, subprocess.Popen([sys.executable, '-c', PRISTINE % {'src': SRC_DIR}, inp, os.path.join(d, 'out.out')],
                                          cwd=d, env=env, stdout=subprocess.PIPE, stderr=subprocess.DEVNULL, text=True)))
        if len(procs) >= 12:
            for j, p in procs:
                out[j] = _collect(p)
            procs = []
    for j, p in procs:
        out[j] = _collect(p)
    return out


def _collect(p):
    so, _ = p.communicate(timeout=600)
    for ln in so.splitlines():
        if ln.startswith('GXVJSON'):
            r = json.loads(ln[7:])
            if r['ok']:
                return {'ok': True, 'report': strip_report(r['report'])}
            return {'ok': False, 'error': r.get('error')}
    return {'ok': False, 'error': 'no output from pristine run (rc=%s)' % p.returncode}


_OWN_ORACLE_DIRS = []


def plan(tier, seed, shards):
    ok, bad = contents()
    work = tempfile.mkdtemp(prefix='gxv-c08-oracle-')
    _OWN_ORACLE_DIRS.append(work)
    res = pristine(ok + bad, work)
    path = os.path.join(work, 'oracle.json')
    with open(path, 'w') as f:
        json.dump({'ok_n': len(ok), 'texts': ok + bad, 'results': res}, f)
    unexpected = [i for i, r in enumerate(res) if (i < len(ok)) != r['ok']]
    n_seq = 14 if tier == 'quick' else 190
    steps = 12 if tier == 'quick' else 30
    specs = [{'kind': 'machine', 'oracle': path, 'n': n_seq, 'steps': steps, 'seed': seed * 1000 + s, 'pool_unexpected': unexpected}
             for s in range(shards)]
    # every content again in fresh interpreters under further hash seeds (the oracle run used yet another one)
    k = 3 if tier == 'quick' else 8
    jobs = [(ci, 50000 + 977 * seed + 131 * ci + 17 * r) for ci in range(len(ok) + len(bad)) for r in range(k)]
    for s in range(shards):
        mine = jobs[s::shards]
        if mine:
            specs.append({'kind': 'hashseed', 'oracle': path, 'jobs': mine})
    return specs


def finalize(merged):
    import shutil
    # only this run's own oracle directory: another C08 run may be in progress on the machine
    for d in _OWN_ORACLE_DIRS:
        shutil.rmtree(d, ignore_errors=True)
    return {}


# ------------------------------------------------------------------ interpreter of operation sequences

class World:
    def __init__(self, oracle):
        worker.init_worker()
        from geophires_x_client import GeophiresXClient
        self.Client = GeophiresXClient
        self.o = oracle
        root = tempfile.mkdtemp(prefix='c08-', dir=worker.scratch_dir())
        self.root = root
        self.dirs = [os.path.join(root, f'd{i}') for i in range(3)]
        for d in self.dirs:
            os.makedirs(d)
        self.files = [os.path.join(root, f'input{i}.txt') for i in range(4)]
        self.file_content = [None] * 4
        self.clients = [GeophiresXClient(enable_caching=True), GeophiresXClient(enable_caching=False)]
        self.start_cwd = os.getcwd()
        self.start_argv = sys.argv
        os.chdir(self.dirs[0])
        self.history = []
        self.flags = set()
        self.last_failed = False
        self.distinct_since = {}
        self._parsed = {}

    @staticmethod
    def canon_result(result):
        d = {k: v for k, v in result.items() if k not in ('metadata', 'Simulation Metadata')}
        return json.dumps(d, sort_keys=True, default=str).split(', "')

    def parsed_pristine(self, k):
        if k not in self._parsed:
            from geophires_x_client.geophires_x_result import GeophiresXResult
            r = self.o['results'][k]
            if not r['ok']:
                self._parsed[k] = None
            else:
                pth = os.path.join(self.root, f'pristine{k}.out')
                with open(pth, 'w', encoding='UTF-8') as f:
                    f.write('\n'.join(r['report']) + '\n')
                with worker.quiet():
                    self._parsed[k] = self.canon_result(GeophiresXResult(pth).result)
        return self._parsed[k]

    def close(self):
        os.chdir(self.start_cwd)
        sys.argv = self.start_argv
        import shutil
        shutil.rmtree(self.root, ignore_errors=True)
        for fn in os.listdir(worker.scratch_dir()):
            if fn.startswith(('geophires-input-params_', 'geophires-result_')):
                try:
                    os.remove(os.path.join(worker.scratch_dir(), fn))
                except OSError:
                    pass

    def step(self, op, bad):
        """apply one operation; `bad(clause, detail, **sig)` records a violation"""
        from geophires_x_client import GeophiresInputParameters
        kind = op[0]
        self.history.append(op)
        if kind == 'chdir':
            os.chdir(self.dirs[op[1] % 3])
            return
        if kind == 'new_client':
            self.clients[op[1] % 2] = self.Client(enable_caching=(op[1] % 2 == 0))
            return
        if kind == 'rewrite':
            j, ci = op[1] % 4, op[2] % len(self.o['texts'])
            with open(self.files[j], 'w', encoding='UTF-8') as f:
                f.write(self.o['texts'][ci])
            if self.file_content[j] is not None and self.file_content[j] != ci:
                self.flags.add('file_rewritten:%d' % j)
            self.file_content[j] = ci
            return
        cwd0, argv0, argv0_list = os.getcwd(), sys.argv, list(sys.argv)
        got, err = None, None
        ci = None
        try:
            with worker.quiet():
                if kind == 'run_params':
                    ci = op[1] % len(self.o['texts'])
                    lines = [ln.split(', ', 1) for ln in self.o['texts'][ci].splitlines()]
                    if len(set(a for a, b in lines)) == len(lines):
                        ip = GeophiresInputParameters(params=dict((a, b) for a, b in lines))
                    else:
                        # a params dict cannot hold a repeated parameter: such contents go through a fresh file
                        self._n_tmp = getattr(self, '_n_tmp', 0) + 1
                        pth = os.path.join(self.root, f'dup{self._n_tmp}.txt')
                        with open(pth, 'w', encoding='UTF-8') as f:
                            f.write(self.o['texts'][ci])
                        ip = GeophiresInputParameters(from_file_path=pth)
                    res = self.clients[op[2] % 2].get_geophires_result(ip)
                    got = res
                elif kind == 'run_file':
                    j = op[1] % 4
                    ci = self.file_content[j]
                    if ci is None:
                        self.history.pop()
                        return
                    ip = GeophiresInputParameters(from_file_path=self.files[j])
                    res = self.clients[op[2] % 2].get_geophires_result(ip)
                    got = res
                    if (op[2] % 2 == 0) and ('file_rewritten:%d' % j) in self.flags:
                        self.flags.add('NT_rewrite_rerun_caching')
                elif kind == 'run_main':
                    ci = op[1] % len(self.o['texts'])
                    import geophires_x.GEOPHIRESv3 as G
                    inp = os.path.join(self.root, 'direct.txt')
                    outp = os.path.join(self.root, 'direct.out')
                    with open(inp, 'w', encoding='UTF-8') as f:
                        f.write(self.o['texts'][ci])
                    if os.path.exists(outp):
                        os.remove(outp)
                    stash = (os.getcwd(), sys.argv)
                    sys.argv = ['', inp, outp]
                    try:
                        G.main(enable_geophires_logging_config=False)
                    finally:
                        # __main__ restores these itself; calling main() directly, the caller (this harness) does
                        sys.argv = stash[1]
                        os.chdir(stash[0])
                    got = open(outp, encoding='UTF-8').read()
        except BaseException as e:
            if isinstance(e, (KeyboardInterrupt, MemoryError)):
                raise
            err = sim._exc_info(e)
        # ---- invariants: caller's cwd / argv
        if kind != 'run_main':
            if os.getcwd() != cwd0 or sys.argv is not argv0 or list(sys.argv) != argv0_list:
                bad('cwd_or_argv_not_restored', {'op': op, 'cwd_before': cwd0, 'cwd_after': os.getcwd(),
                                                 'argv_same_object': sys.argv is argv0, 'argv_after': [str(x) for x in sys.argv][:3],
                                                 'request_failed': err is not None}, after='failure' if err else 'success', via=kind)
                os.chdir(cwd0)
                sys.argv = argv0
        want = self.o['results'][ci]
        label = 'content%d' % ci
        if want['ok']:
            if err is not None:
                bad('run_fails_in_this_history', {'op': op, 'content': ci, 'error': err, 'history': self.history[-8:]},
                    content=str(ci), error=str(err['type']))
            else:
                if isinstance(got, str):
                    g, w_ = strip_report(got), want['report']
                else:
                    # what the client returns is the parsed result: compare it with the parse of the pristine report
                    g, w_ = self.canon_result(got.result), self.parsed_pristine(ci)
                if g != w_:
                    diff = [(a, b) for a, b in zip(g, w_) if a != b][:3]
                    stale = None
                    for k, r in enumerate(self.o['results']):
                        if r['ok'] and (r['report'] == g if isinstance(got, str) else self.parsed_pristine(k) == g):
                            stale = k
                    bad('stale_result' if stale is not None else 'result_differs_from_pristine_run',
                        {'op': op, 'content': ci, 'equals_pristine_result_of_content': stale, 'first_differences': diff,
                         'history': self.history[-8:]}, via=kind, content=str(ci))
            if self.last_failed and err is None:
                self.flags.add('NT_success_after_failure')
            self.last_failed = False
        else:
            if err is None:
                stale = None
                for k, r in enumerate(self.o['results']):
                    if r['ok'] and (r['report'] == strip_report(got) if isinstance(got, str) else self.parsed_pristine(k) == self.canon_result(got.result)):
                        stale = k
                bad('failing_request_returned_result', {'op': op, 'content': ci, 'equals_pristine_result_of_content': stale,
                                                        'pristine_error': want.get('error')}, via=kind, content=str(ci))
            self.last_failed = True
        # repeat of an earlier content after >= 2 other configurations
        seen = self.distinct_since.get(ci)
        if seen is not None and len(seen) >= 2:
            self.flags.add('NT_repeat_after_others')
        for k in self.distinct_since:
            if k != ci:
                self.distinct_since[k].add(ci)
        self.distinct_since[ci] = set()


def run_ops(ops, oracle, rec, case_extra=None):
    w = World(oracle)
    case = {'kind': 'ops', 'ops': ops}

    def bad(clause, detail, **sig):
        rec.violation(clause, {'kind': 'ops', 'ops': list(w.history)}, detail, **sig)
    try:
        for op in ops:
            w.step(op, bad)
    finally:
        w.close()
    nts = sorted(f for f in w.flags if f.startswith('NT_'))
    rec.case(case, nontrivial=bool(nts), labels=nts + ['sequence'] + ['len:%d' % min(len(ops) // 4 * 4, 28)], key=ops,
             sample={'ops': ops[:14], 'classes': nts})
    rec.count('steps', len(ops))


def _load_oracle(path):
    with open(path) as f:
        return json.load(f)


def _hashseed_job(ci, hs, oracle, rec):
    case = {'kind': 'hashseed', 'content': ci, 'hash_seed': hs}
    work = tempfile.mkdtemp(prefix='c08-hs-', dir=worker.scratch_dir())
    try:
        got = pristine([oracle['texts'][ci]], work, hash_seeds=[hs])[0]
    finally:
        import shutil
        shutil.rmtree(work, ignore_errors=True)
    want = oracle['results'][ci]
    rec.case(case, nontrivial=True, labels=['fresh_interpreter_other_hash_seed', 'ok' if want['ok'] else 'failing'], key=[ci, hs],
             sample={'content': ci, 'hash_seed': hs, 'first_lines': oracle['texts'][ci].splitlines()[:4]})
    if want['ok'] != got['ok']:
        rec.violation('outcome_depends_on_hash_seed', case, {'content': ci, 'hash_seed': hs, 'oracle_ok': want['ok'], 'this_ok': got['ok'],
                                                             'error': got.get('error') or want.get('error')}, content=str(ci))
    elif want['ok'] and want['report'] != got['report']:
        diff = [(a, b) for a, b in zip(got['report'], want['report']) if a != b][:3]
        rec.violation('result_depends_on_hash_seed', case, {'content': ci, 'hash_seed': hs, 'first_differences': diff,
                                                            'n_lines': [len(got['report']), len(want['report'])]}, content=str(ci))


def _siblings(texts, n_ok):
    """pairs of accepted contents that differ in exactly one line"""
    out = []
    for i in range(n_ok):
        a = texts[i].splitlines()
        for j in range(i + 1, n_ok):
            b = texts[j].splitlines()
            if len(a) == len(b) and sum(1 for x, y in zip(a, b) if x != y) == 1:
                out.append((i, j))
    return out


def run_shard(spec, rec):
    oracle = _load_oracle(spec['oracle'])
    if spec['kind'] == 'hashseed':
        worker.init_worker()
        for ci, hs in spec['jobs']:
            if rec.out_of_time():
                break
            _hashseed_job(ci, hs, oracle, rec)
        return
    if spec.get('pool_unexpected'):
        # a content of the 'accepted' pool fails (or a failing one succeeds) already in a pristine process: not a history effect;
        # keep going with what the pristine run says, but say so
        rec.label('pool_content_unexpected_in_pristine_run', len(spec['pool_unexpected']))
    n_ok = oracle['ok_n']
    n_all = len(oracle['texts'])
    content_idx = st.one_of(st.integers(0, n_ok - 1), st.integers(0, n_all - 1), st.integers(n_ok, n_all - 1))
    sibs = _siblings(oracle['texts'], n_ok) or [(0, 1)]

    class Machine(RuleBasedStateMachine):
        def __init__(self):
            super().__init__()
            self.w = World(oracle)
            self.ops = []

        def _do(self, op):
            if rec.out_of_time():
                return
            self.ops.append(op)
            self.w.step(op, lambda clause, detail, **sig: rec.violation(clause, {'kind': 'ops', 'ops': list(self.w.history)}, detail, **sig))

        @rule(ci=content_idx, cl=st.integers(0, 1))
        def run_params(self, ci, cl):
            self._do(['run_params', ci, cl])

        @rule(j=st.integers(0, 3), ci=content_idx)
        def rewrite(self, j, ci):
            self._do(['rewrite', j, ci])

        @rule(j=st.integers(0, 3), ci=content_idx, cl=st.integers(0, 1))
        def rewrite_and_run(self, j, ci, cl):
            self._do(['rewrite', j, ci])
            self._do(['run_file', j, cl])

        @rule(j=st.integers(0, 3), cl=st.integers(0, 1))
        def run_file(self, j, cl):
            self._do(['run_file', j, cl])

        @rule(ci=content_idx)
        def run_main(self, ci):
            self._do(['run_main', ci])

        @rule(pair=st.sampled_from(sibs), swap=st.booleans(), cl=st.integers(0, 1), j=st.integers(0, 4))
        def run_siblings(self, pair, swap, cl, j):
            # two requests that differ in one line, back to back on the same client: through params objects, or through one
            # named file rewritten in between
            a, b = (pair[1], pair[0]) if swap else pair
            if j == 4:
                self._do(['run_params', a, cl])
                self._do(['run_params', b, cl])
            else:
                self._do(['rewrite', j, a])
                self._do(['run_file', j, cl])
                self._do(['rewrite', j, b])
                self._do(['run_file', j, cl])

        @rule(d=st.integers(0, 2))
        def chdir(self, d):
            self._do(['chdir', d])

        @rule(k=st.integers(0, 1))
        def new_client(self, k):
            self._do(['new_client', k])

        def teardown(self):
            w = self.w
            w.close()
            nts = sorted(f for f in w.flags if f.startswith('NT_'))
            if w.history:
                rec.case({'kind': 'ops', 'ops': w.history}, nontrivial=bool(nts), labels=nts + ['sequence'], key=w.history,
                         sample={'ops': w.history[:14], 'classes': nts})
                rec.count('steps', len(w.history))

    run_state_machine_as_test(
        hseed(spec['seed'])(Machine),
        settings=settings(max_examples=spec['n'], stateful_step_count=spec['steps'], deadline=None, database=None,
                          phases=[Phase.generate], suppress_health_check=list(HealthCheck), report_multiple_bugs=False))


_ORACLE_CACHE = {}


def evaluate(case, rec):
    """replay an operation sequence; the pristine oracle of the running campaign is reused (plan() wrote it), a stand-alone
    replay computes it once per process"""
    import glob
    if 'o' not in _ORACLE_CACHE:
        mine = sorted(glob.glob(os.path.join(tempfile.gettempdir(), 'gxv-c08-oracle-*', 'oracle.json')), key=os.path.getmtime)
        if mine and os.environ.get('GXV_C08_FRESH_ORACLE') != '1':
            _ORACLE_CACHE['o'] = _load_oracle(mine[-1])
        else:
            ok, bad = contents()
            work = tempfile.mkdtemp(prefix='gxv-c08-replay-')
            try:
                res = pristine(ok + bad, work)
            finally:
                import shutil
                shutil.rmtree(work, ignore_errors=True)
            _ORACLE_CACHE['o'] = {'ok_n': len(ok), 'texts': ok + bad, 'results': res}
    if case.get('kind') == 'hashseed':
        worker.init_worker()
        _hashseed_job(case['content'], case['hash_seed'], _ORACLE_CACHE['o'], rec)
        return
    run_ops(case['ops'], _ORACLE_CACHE['o'], rec)


def shrink_candidates(case):
    if case.get('kind') == 'hashseed':
        return
    ops = case['ops']
    for i in range(len(ops)):
        yield {'kind': 'ops', 'ops': ops[:i] + ops[i + 1:]}
