"""C11 - economic results scale the way the definitions require (metamorphic run pairs)."""
import math

from hypothesis import strategies as st

from .. import gen, sim, snapshot
from ..runner import drive

ID = 'C11'
LEVEL = 'exploration'
BUDGET_S = {'quick': 300, 'thorough': 1500}
RULE = ('Hypothesis base configurations (all econ models x end-uses, reservoir models 3/4, redrilling in a fraction) with every '
        'cost made explicit so production does not depend on cost - either through the totals or through every component '
        '(equipment costs of heat pump / chiller sometimes left to the simulator) - then metamorphic pairs: (a) all cost '
        'inputs (+ electricity purchase rate / peaking fuel rate) x k => every levelized cost x k, energy unchanged; '
        '(b) sale prices changed only (start/end scaled, or only the escalation rate raised) => levelized costs identical and NPV strictly follows the price when energy is sold (judged on the energy series, not on the revenue); '
        '(c) direct-use heat, efficiency halved => LCOH doubled; (d) an all-zero add-on, an explicit zero ITC rate, an '
        'explicit zero grant => every core economic result identical. Non-trivial = accepted pair with k outside '
        '[0.99,1.01] / price change >= 1 % / energy sold > 0; distinct by parameter set and relation.')
ASSUMPTIONS = ['rel 1e-9 on scaled quantities; bit-identity for relations that must not change a result']

CORE = ['LCOE', 'LCOH', 'LCOC', 'CCap', 'Coam', 'ProjectNPV', 'ProjectIRR', 'ProjectVIR', 'ProjectMOIC', 'ProjectPaybackPeriod']

TOTALS = [('Total Capital Cost', 5, 400), ('Total O&M Cost', 0.2, 30)]
COMPONENTS = [('Reservoir Stimulation Capital Cost', 0.5, 50), ('Exploration Capital Cost', 0.5, 30),
              ('Surface Plant Capital Cost', 2, 250), ('Field Gathering System Capital Cost', 0.5, 30),
              ('Wellfield O&M Cost', 0.1, 8), ('Surface Plant O&M Cost', 0.1, 8), ('Water Cost', 0.01, 3)]
WELLS = [('Well Drilling and Completion Capital Cost', 1, 30), ('Injection Well Drilling and Completion Capital Cost', 1, 30)]
EXTRAS = [('One-time Grants Etc', 0, 10), ('Other Incentives', 0, 5), ('One-time Flat License Fees Etc', 0, 5),
          ('Annual License Fees Etc', 0, 1), ('Tax Relief Per Year', 0, 1)]
MAXV = {'Total Capital Cost': 1000, 'Total O&M Cost': 100, 'Reservoir Stimulation Capital Cost': 1000, 'Exploration Capital Cost': 100,
        'Surface Plant Capital Cost': 1000, 'Field Gathering System Capital Cost': 100, 'Wellfield O&M Cost': 100,
        'Surface Plant O&M Cost': 100, 'Water Cost': 100, 'Well Drilling and Completion Capital Cost': 200,
        'Injection Well Drilling and Completion Capital Cost': 200, 'Well Drilling and Completion Capital Cost Adjustment Factor': 10,
        'Injection Well Drilling and Completion Capital Cost Adjustment Factor': 10, 'One-time Grants Etc': 1000, 'Other Incentives': 1000,
        'One-time Flat License Fees Etc': 1000, 'Annual License Fees Etc': 1000, 'Tax Relief Per Year': 100, 'Electricity Rate': 1.0,
        'Peaking Fuel Cost Rate': 1.0, 'Heat Pump Capital Cost': 100, 'Absorption Chiller Capital Cost': 100,
        'Absorption Chiller O&M Cost': 100, 'Total District Heating Network Cost': 1000, 'District Heating O&M Cost': 100}


def plan(tier, seed, shards):
    n = 800 if tier == 'quick' else 20000
    return [{'kind': 'hyp', 'n': n // shards, 'seed': seed * 1000 + s, 'tier': tier} for s in range(shards)]


@st.composite
def cases(draw, tier):
    base = draw(gen.configs(reservoirs=('4', '3'), slow_fraction=0.0 if tier == 'quick' else 0.03, addons=0.0, costs=False,
                            prices=True, examples=0.0))
    params = base['params']
    labels = list(base.get('labels', []))
    sl = [l for l in labels if l.startswith(('elec', 'heat', 'chiller', 'district', 'cogen'))]
    surface = sl[0] if sl else ''
    relation = draw(st.sampled_from(['scale', 'scale', 'price', 'efficiency', 'neutral', 'escalation']))
    cost = []
    use_totals = (draw(st.integers(0, 2)) == 0 and surface != 'heatpump') or surface in ('district', 'chiller')
    if use_totals:
        for n, lo, hi in TOTALS:
            cost.append([n, gen.fmt(draw(gen.nice_floats(lo, hi)))])
    else:
        for n, lo, hi in COMPONENTS:
            cost.append([n, gen.fmt(draw(gen.nice_floats(lo, hi)))])
    if not use_totals and draw(st.integers(0, 2)) == 0:
        # well costs from the built-in correlation, sized by the adjustment factors (the scalable cost figure is then the factor)
        fa = draw(gen.nice_floats(0.3, 3.0))
        cost.append(['Well Drilling and Completion Capital Cost Adjustment Factor', gen.fmt(fa)])
        cost.append(['Injection Well Drilling and Completion Capital Cost Adjustment Factor', gen.fmt(draw(st.one_of(st.just(fa), gen.nice_floats(0.3, 3.0))))])
        if draw(st.booleans()):
            cost.append(['Well Drilling Cost Correlation', str(draw(st.sampled_from([1, 2, 3, 4, 6, 7, 8, 9, 10, 11, 12, 13, 14, 15, 16, 17])))])
        labels.append('well_cost_from_correlation_x_factor')
    else:
        for n, lo, hi in WELLS[:1 if draw(st.booleans()) else 2]:
            cost.append([n, gen.fmt(draw(gen.nice_floats(lo, hi)))])
    if use_totals:
        cost.append(['Reservoir Stimulation Capital Cost', gen.fmt(draw(gen.nice_floats(0.5, 50)))])
    for n, lo, hi in EXTRAS:
        if draw(st.integers(0, 3)) == 0:
            cost.append([n, gen.fmt(draw(gen.nice_floats(lo, hi)))])
    if relation in ('scale', 'efficiency', 'neutral') or draw(st.booleans()):
        cost.append(['Electricity Rate', gen.fmt(draw(gen.nice_floats(0.01, 0.3)))])
    else:
        labels.append('purchase_rate_left_at_default')  # price relations do not need every cost stated
    if surface == 'district':
        cost.append(['Peaking Fuel Cost Rate', gen.fmt(draw(gen.nice_floats(0.005, 0.2)))])
    if surface == 'heatpump' and draw(st.booleans()):
        cost.append(['Heat Pump Capital Cost', gen.fmt(draw(gen.nice_floats(0.5, 30)))])
    if draw(st.integers(0, 2)) == 0:
        params = gen.merge(params, [['Maximum Drawdown', gen.fmt(draw(gen.nice_floats(0.02, 0.4)))]])
    if draw(st.integers(0, 3)) == 0:
        cost.append(['Investment Tax Credit Rate', gen.fmt(draw(gen.nice_floats(0.05, 0.5)))])
    params = gen.merge(params, cost)
    case = {'family': base['family'], 'params': params, 'relation': relation, 'labels': labels, 'totals': use_totals}
    if relation == 'scale':
        scalable = [n for n, _ in cost if n in MAXV]
        kmax = min(MAXV[n] / float(dict(cost)[n]) for n in scalable if float(dict(cost)[n]) > 0)
        k = draw(st.one_of(gen.nice_floats(0.05, min(20.0, kmax)), st.sampled_from([0.5, 2.0, 3.0]).filter(lambda x: x <= kmax)))
        case['k'] = k
        case['scaled'] = scalable
    elif relation == 'price':
        case['price_factor'] = draw(st.one_of(gen.nice_floats(0.2, 5), st.sampled_from([0.5, 2.0])))
    elif relation == 'escalation':
        r0 = draw(st.one_of(st.just(0.0), gen.nice_floats(0, 0.004)))
        case['escalation'] = {'start_year': draw(st.one_of(st.integers(0, 6), st.integers(0, 45))), 'rate0': r0,
                              'rate1': r0 + draw(gen.nice_floats(0.0002, 0.008))}
    elif relation == 'efficiency':
        params = gen.merge(gen.drop_param(params, 'Power Plant Type'), [['End-Use Option', '2'],
                           ['End-Use Efficiency Factor', gen.fmt(draw(gen.nice_floats(0.2, 1.0)))]])
        params = [p for p in params if p[0] not in ('Heat Pump COP', 'Absorption Chiller COP', 'CHP Fraction',
                                                    'CHP Bottoming Entering Temperature') and not p[0].startswith('District Heating')
                  and p[0] not in ('Peaking Fuel Cost Rate', 'Peaking Boiler Efficiency', 'Heat Pump Capital Cost')]
        if draw(st.booleans()):
            params = gen.merge(params, [['Power Plant Type', '9']])
        case['params'] = params
    else:
        case['neutral'] = draw(st.sampled_from(['zero_addon', 'zero_itc', 'zero_grant']))
    return case


def close(a, b, rel=1e-9):
    return math.isclose(float(a), float(b), rel_tol=rel, abs_tol=1e-12)


def _run(params):
    r = sim.run_params(params, want_report=False)
    if not r.ok or r.snap['misc']['economics_class'] != 'Economics':
        return None
    return r.snap


def _energy(s):
    sp = s['surfaceplant']
    return {n: [float(x) for x in sp[n].value] if hasattr(sp[n].value, '__len__') else float(sp[n].value)
            for n in ('NetkWhProduced', 'HeatkWhProduced') if n in sp}


def evaluate(case, rec):
    params = case['params']
    rel = case['relation']
    s0 = _run(params)
    labels = [f'relation:{rel}'] + [l for l in case.get('labels', []) if l.startswith(('econ', 'res'))]
    if s0 is None:
        rec.case(case, nontrivial=False, labels=['rejected_base', f'relation:{rel}'])
        return
    e0 = s0['economics']
    model_id = snapshot.enum_int(e0['econmodel'].value)
    enduse = snapshot.enum_int(s0['surfaceplant']['enduse_option'].value)
    plant = snapshot.enum_int(s0['surfaceplant']['plant_type'].value)
    sig = dict(econ=str(model_id), enduse=str(enduse), plant=str(plant), relation=rel)

    def bad(clause, detail, **extra):
        rec.violation(clause, {k: v for k, v in case.items() if k != 'labels'}, detail, **sig, **extra)

    def finite(x):
        return isinstance(x, (int, float)) and x == x and abs(x) != float('inf')

    lcos = {n: float(e0[n].value) for n in ('LCOE', 'LCOH', 'LCOC')}
    nt = False
    if rel == 'scale':
        k = case['k']
        pd = dict((a, b) for a, b in params)
        scaled = [[n, gen.fmt(float(pd[n]) * k)] for n in case['scaled']]
        s1 = _run(gen.merge(params, scaled))
        if s1 is None:
            rec.case(case, nontrivial=False, labels=labels + ['rejected_scaled'])
            return
        e1 = s1['economics']
        if _energy(s0) != _energy(s1):
            bad('energy_changed_by_cost_scaling', {})
        for n in ('LCOE', 'LCOH', 'LCOC'):
            a, b = lcos[n], float(e1[n].value)
            if not (finite(a) and finite(b)) or a == 0:
                continue
            # the written scaled inputs are k * value rounded to the nearest double: effective factors differ by ~1e-16
            if not close(b, a * k, rel=1e-9):
                bad('levelized_cost_not_homogeneous', {'which': n, 'base': a, 'scaled_run': b, 'k': k, 'observed_factor': b / a,
                                                      'totals_given': case.get('totals')}, which=n)
        nt = not (0.99 <= k <= 1.01) and any(finite(v) and v != 0 for v in lcos.values())
        if int(s0['wellbores']['redrill'].value or 0) > 0:
            labels.append('with_redrilling')
        labels.append('totals' if case.get('totals') else 'components')
    elif rel == 'price':
        f = case['price_factor']
        pd = dict((a, b) for a, b in params)
        changed = []
        for prod, dstart in (('Electricity', 0.055), ('Heat', 0.025), ('Cooling', 0.025)):
            s_ = float(pd.get(f'Starting {prod} Sale Price', dstart)) * f
            e_ = float(pd.get(f'Ending {prod} Sale Price', dstart)) * f
            if s_ <= 100 and e_ <= 100:
                changed += [[f'Starting {prod} Sale Price', gen.fmt(s_)], [f'Ending {prod} Sale Price', gen.fmt(e_)]]
        s1 = _run(gen.merge(params, changed))
        if s1 is None:
            rec.case(case, nontrivial=False, labels=labels + ['rejected_priced'])
            return
        e1 = s1['economics']
        for n in ('LCOE', 'LCOH', 'LCOC'):
            a, b = lcos[n], float(e1[n].value)
            if finite(a) and finite(b) and a != b:
                bad('levelized_cost_depends_on_sale_price', {'which': n, 'base': a, 'other_price_run': b, 'price_factor': f}, which=n)
        # energy sold
        rev0 = sum(float(x) for x in e0['ElecRevenue'].value) + sum(float(x) for x in e0['HeatRevenue'].value) + \
            sum(float(x) for x in e0['CoolingRevenue'].value)
        rev1 = sum(float(x) for x in e1['ElecRevenue'].value) + sum(float(x) for x in e1['HeatRevenue'].value) + \
            sum(float(x) for x in e1['CoolingRevenue'].value)
        # "the energy sold is positive": judged on the energy series of the products this configuration sells (not on the
        # revenue, which is what a defect would zero), at a positive price that the pair actually changes
        sp0 = s0['surfaceplant']
        chg = dict((a, float(b)) for a, b in changed)

        def ser(nm):
            v = sp0[nm].value if nm in sp0 else []
            return [float(x) for x in v] if hasattr(v, '__len__') else [float(v)]
        products = []
        if enduse != 2:
            products.append(('Electricity', ser('NetkWhProduced')))
        if enduse != 1 and plant != 5:
            products.append(('Heat', ser('HeatkWhProduced')))
        if plant == 5:
            products.append(('Cooling', ser('cooling_kWh_Produced')))
        none_negative = all(x >= 0 for _, sr in products for x in sr) and \
            all(float(x) >= 0 for nme in ('ElecRevenue', 'HeatRevenue', 'CoolingRevenue') for x in e0[nme].value)
        priced = [prod for prod, sr in products if sum(sr) > 0 and
                  max(chg.get(f'Starting {prod} Sale Price', 0.0), chg.get(f'Ending {prod} Sale Price', 0.0)) > 0]
        sold_positive = none_negative and (bool(priced) or rev0 > 0)
        npv0, npv1 = float(e0['ProjectNPV'].value), float(e1['ProjectNPV'].value)
        if sold_positive and abs(f - 1) >= 0.01 and finite(npv0) and finite(npv1):
            if (f > 1 and not npv1 > npv0) or (f < 1 and not npv1 < npv0):
                bad('npv_does_not_follow_price', {'price_factor': f, 'npv_base': npv0, 'npv_other': npv1, 'revenue_base': rev0, 'revenue_other': rev1,
                                                  'products_with_energy_and_price': priced})
            nt = True
        labels.append('energy_sold>0' if sold_positive else 'no_positive_sales')
    elif rel == 'escalation':
        # only the escalation rate of the sale prices is raised (same start year, ending price high enough not to bind at once):
        # by the documented schedule no year's price falls, so NPV must not fall, and must rise when a year with energy sold
        # gets a strictly higher price
        esc = case['escalation']
        pd = dict((a, b) for a, b in params)
        L = int(s0['surfaceplant']['plant_lifetime'].value)
        sp0 = s0['surfaceplant']

        def ser(nm):
            v = sp0[nm].value if nm in sp0 else []
            return [float(x) for x in v] if hasattr(v, '__len__') else [float(v)]
        products = []
        if enduse != 2:
            products.append(('Electricity', 0.055, ser('NetkWhProduced')))
        if enduse != 1 and plant != 5:
            products.append(('Heat', 0.025, ser('HeatkWhProduced')))
        if plant == 5:
            products.append(('Cooling', 0.025, ser('cooling_kWh_Produced')))
        blocks = {0: [], 1: []}
        strictly = False
        for prod, dflt, sr in products:
            start = float(pd.get(f'Starting {prod} Sale Price', dflt))
            end = min(100.0, max(float(pd.get(f'Ending {prod} Sale Price', dflt)), start * 2 + 0.02))
            for j, r in ((0, esc['rate0']), (1, esc['rate1'])):
                blocks[j] += [[f'Starting {prod} Sale Price', gen.fmt(start)], [f'Ending {prod} Sale Price', gen.fmt(end)],
                              [f'{prod} Escalation Start Year', str(esc['start_year'])], [f'{prod} Escalation Rate Per Year', gen.fmt(r)]]
            price = lambda i, r: min(start + max(0, i - esc['start_year']) * r, end)
            if len(sr) == L and any(price(i, esc['rate1']) > price(i, esc['rate0']) and sr[i] > 0 for i in range(L)):
                strictly = True
        none_negative = all(x >= 0 for _, _, sr in products for x in sr)
        sa, sb = _run(gen.merge(params, blocks[0])), _run(gen.merge(params, blocks[1]))
        if sa is None or sb is None:
            rec.case(case, nontrivial=False, labels=labels + ['rejected_escalation_pair'])
            return
        ea, eb = sa['economics'], sb['economics']
        for n in ('LCOE', 'LCOH', 'LCOC'):
            a, b = float(ea[n].value), float(eb[n].value)
            if finite(a) and finite(b) and a != b:
                bad('levelized_cost_depends_on_sale_price', {'which': n, 'base': a, 'other_price_run': b, 'escalation': esc}, which=n)
        npva, npvb = float(ea['ProjectNPV'].value), float(eb['ProjectNPV'].value)
        if none_negative and finite(npva) and finite(npvb):
            if npvb < npva or (strictly and not npvb > npva):
                bad('npv_does_not_follow_price', {'escalation': esc, 'npv_lower_rate': npva, 'npv_higher_rate': npvb,
                                                  'some_year_with_energy_gets_higher_price': strictly, 'lifetime': L}, via='escalation_rate')
            nt = strictly
        labels.append('escalation_strict' if strictly else 'escalation_no_effect_expected')
    elif rel == 'efficiency':
        pd = dict((a, b) for a, b in params)
        eta = float(pd['End-Use Efficiency Factor'])
        s1 = _run(gen.merge(params, [['End-Use Efficiency Factor', gen.fmt(eta / 2.0)]]))
        if s1 is None:
            rec.case(case, nontrivial=False, labels=labels + ['rejected_half_efficiency'])
            return
        a, b = lcos['LCOH'], float(s1['economics']['LCOH'].value)
        if finite(a) and finite(b) and a != 0:
            if not close(b, 2.0 * a):
                bad('lcoh_not_doubled_by_half_efficiency', {'base': a, 'half_efficiency_run': b, 'observed_factor': b / a, 'efficiency': eta})
            nt = True
    else:
        which = case['neutral']
        extra = {'zero_addon': [['Do AddOn Calculations', 'True'], ['AddOn Nickname 1', 'nothing'], ['AddOn CAPEX 1', '0'],
                                ['AddOn OPEX 1', '0'], ['AddOn Electricity Gained 1', '0'], ['AddOn Heat Gained 1', '0'],
                                ['AddOn Profit Gained 1', '0']],
                 'zero_itc': [['Investment Tax Credit Rate', '0']],
                 'zero_grant': [['One-time Grants Etc', '0']]}[which]
        base_params = params
        if which == 'zero_itc':
            base_params = gen.drop_param(params, 'Investment Tax Credit Rate')
            s0 = _run(base_params)
        if which == 'zero_grant':
            base_params = gen.drop_param(params, 'One-time Grants Etc')
            s0 = _run(base_params)
        if which == 'zero_addon':
            base_params = gen.drop_param(params, 'Construction Years')  # the add-on writer needs construction years == 1
            s0 = _run(base_params)
        s1 = _run(gen.merge(base_params, extra)) if s0 is not None else None
        if s0 is None:
            rec.case(case, nontrivial=False, labels=labels + ['rejected_neutral:' + which])
            return
        if s1 is None:
            # the base input is accepted: adding an element that 'changes nothing' must not make the run fail
            r1 = sim.run_params(gen.merge(base_params, extra), want_report=False)
            if r1.ok or (r1.exc or {}).get('type') == 'RunTimeout':
                # not reproducible / the harness-side hang guard fired (machine load): inconclusive
                rec.case(case, nontrivial=False, labels=labels + ['inconclusive_neutral_rerun'])
                return
            rec.case(case, nontrivial=True, labels=labels + ['neutral:' + which], key=[params, rel, which])
            bad('neutral_element_breaks_run', {'neutral': which, 'error': r1.exc}, neutral=which)
            return
        e0, e1 = s0['economics'], s1['economics']
        for n in CORE:
            a, b = e0[n].value, e1[n].value
            same = (a == b) or (isinstance(a, float) and isinstance(b, float) and a != a and b != b)
            if not same:
                bad('neutral_element_changes_result', {'neutral': which, 'output': n, 'without': a, 'with': b}, neutral=which, output=n)
        labels.append('neutral:' + which)
        nt = True
    rec.case(case, nontrivial=nt, labels=labels + [f'econ:{model_id}', f'enduse:{enduse}'], key=[params, rel, case.get('k'), case.get('price_factor'), case.get('neutral')],
             sample={'family': case['family'], 'relation': rel, 'k': case.get('k'), 'price_factor': case.get('price_factor'),
                     'neutral': case.get('neutral'), 'n_params': len(params)})


def run_shard(spec, rec):
    def fn(c):
        if rec.out_of_time():
            return
        evaluate(c, rec)
    drive(cases(spec['tier']), fn, spec['n'], spec['seed'])
