"""C06 - results do not depend on the units in which inputs are written; the report echoes the supplied quantity;
an output-unit directive changes only that output's displayed value and label, by the exact conversion factor."""
import math
import re

import numpy as np
from hypothesis import strategies as st

from .. import gen, sim, meta, snapshot, units, worker
from ..report import Report, to_float, decimals_of
from ..runner import drive
from . import c09

ID = 'C06'
LEVEL = 'exploration'
EXHAUSTIVE = False
BUDGET_S = {'quick': 400, 'thorough': 1800}
RULE = ('finite product per configuration family: every scalar float input whose declared unit is in the independent hand-written '
        'conversion table (length, area, volume, mass, density, temperature incl. affine degF/degK, pressure, time, gradient, power, '
        'energy, currency prefixes, currency per year, energy cost, cost per mass, CO2 intensity - not pint) x every other catalogue '
        'unit of that class; metamorphic pair: run A with the bare value, run B with the equivalent "<value> <unit>". Clauses: '
        '(raises) run B fails, (results) any numeric output of the two snapshots differs beyond rel 1e-7, (echo) a report line that '
        'echoes the input does not denote the supplied quantity. Output directive: every output the report prints x convertible '
        'catalogue unit through "Units:<name>, <unit>": the lines showing it must carry the new label and value x exact factor and '
        'every other line must be byte-identical. Hypothesis adds random in-range values (thorough). Non-trivial = unit differs from '
        'the default, conversion not the identity, and the parameter influences at least one output in that family (measured by a '
        'nudged run); distinct by (family, parameter, unit).')
ASSUMPTIONS = ['a bare value is in the parameter\'s declared preferred unit (documented convention); for float parameters year-based time units are not varied; '
               'integer parameters counted in years are written as N + 1/4 years in day/week/hr/min/sec/msec, which truncates to N under any 365..366-day year',
               'currencies other than USD need a live exchange rate and are not varied']

ECHO = {
    'Reservoir Depth': ('ENGINEERING PARAMETERS', 'Well depth'), 'Maximum Temperature': ('RESOURCE CHARACTERISTICS', 'Maximum reservoir temperature'),
    'Gradient 1': ('RESOURCE CHARACTERISTICS', 'Geothermal gradient'), 'Production Flow Rate per Well': ('ENGINEERING PARAMETERS', 'Flowrate per production well'),
    'Injection Temperature': ('ENGINEERING PARAMETERS', 'Injection temperature'),
    'Production Well Diameter': ('ENGINEERING PARAMETERS', 'Production well casing ID'),
    'Injection Well Diameter': ('ENGINEERING PARAMETERS', 'Injection well casing ID'),
    'Production Wellbore Temperature Drop': ('ENGINEERING PARAMETERS', 'Constant production well temperature drop'),
    'Reservoir Heat Capacity': ('RESERVOIR PARAMETERS', 'Reservoir heat capacity'), 'Reservoir Density': ('RESERVOIR PARAMETERS', 'Reservoir density'),
    'Reservoir Volume': ('RESERVOIR PARAMETERS', 'Reservoir volume'), 'Fracture Separation': ('RESERVOIR PARAMETERS', 'Fracture separation'),
}


def families(tier):
    f = {'res4-elec2-econ1': gen.merge(gen.RES4, gen.ELEC(2), gen.ECON['1'], [['Starting Electricity Sale Price', '0.06'], ['Total Capital Cost', '80']]),
         'res3-heat-econ2': gen.merge(gen.RES3, gen.HEAT, gen.ECON['2'], [['Surface Plant Capital Cost', '12'], ['Wellfield O&M Cost', '0.8']])}
    f['res4-elec2-overpressure'] = gen.merge(gen.RES4, gen.ELEC(2), gen.ECON['1'], [['Overpressure Percentage', '140'], ['Overpressure Depletion Rate', '8'],
                                                                                   ['Injection Reservoir Inflation Rate', '100'], ['Gradient 1', '65']])
    # absorption chiller: several outputs are the same array under two names (heat produced = heat extracted)
    f['res4-chiller-econ1'] = gen.merge(gen.RES4, gen.CHILLER, gen.ECON['1'], [['Maximum Drawdown', '0.05']])
    # an input without a 'Print Output to Console' line (the shipped Fervo / SHR examples have none): directives must work alike
    f['res3-heat-econ2-no-console-line'] = gen.drop_param(f['res3-heat-econ2'], 'Print Output to Console')
    if tier == 'thorough':
        f.update({'res1-cogen31p1-econ3': gen.merge(gen.RES1, gen.COGEN(31, 1), gen.ECON['3']),
                  'res4-heatpump-econ1': gen.merge(gen.RES4, gen.HEATPUMP, gen.ECON['1'], [['Heat Pump Capital Cost', '4']]),
                  'res4-district-econ2': gen.merge(gen.RES4, gen.DISTRICT, gen.ECON['2'], [['Plant Lifetime', '5'], ['Time steps per year', '2']]),
                  'res2-chiller-econ1': gen.merge(gen.RES2, gen.CHILLER, gen.ECON['1'])})
    return f


def plan(tier, seed, shards):
    specs = []
    fams = list(families(tier))
    per = max(1, shards // len(fams)) if tier == 'quick' else 6
    for f in fams:
        for i in range(per):
            if f == 'res3-heat-econ2-no-console-line' or (tier == 'quick' and f == 'res4-chiller-econ1'):
                continue  # these families only on the output-directive side
            specs.append({'kind': 'input', 'family': f, 'part': i, 'parts': per, 'tier': tier, 'seed': seed})
        for i in range(max(1, per // 2)):
            specs.append({'kind': 'output', 'family': f, 'part': i, 'parts': max(1, per // 2), 'tier': tier, 'seed': seed})
    return specs


def close_snap(a, b, rel=1e-7):
    fa, fb = snapshot.numeric_fields(a, kinds=('out',)), snapshot.numeric_fields(b, kinds=('out',))
    for k in sorted(set(fa) & set(fb)):
        va, vb = fa[k], fb[k]
        try:
            xa, xb = np.asarray(va, dtype=float), np.asarray(vb, dtype=float)
        except (TypeError, ValueError):
            continue
        if xa.shape != xb.shape:
            return {'field': k, 'shape_a': list(xa.shape), 'shape_b': list(xb.shape)}
        with np.errstate(all='ignore'):
            ok = np.isclose(xa, xb, rtol=rel, atol=1e-12, equal_nan=True)
        if not np.all(ok):
            i = int(np.argmin(ok)) if xa.ndim else 0
            return {'field': k, 'bare_value_run': float(xa.flat[i]) if xa.size else None, 'unit_run': float(xb.flat[i]) if xb.size else None}
    return None


def _rows(base):
    m, e = sim.read_only(sim.render(base))
    if e:
        raise RuntimeError(f'HARNESS: C06 family base rejected: {e}')
    rows = []
    for r in meta.param_rows(m):
        if r['kind'] == 'floatParameter' and r['comp'] in ('reserv', 'wellbores', 'surfaceplant', 'economics') and units.alternatives(r['pu']):
            rows.append(r)
        elif r['kind'] == 'intParameter' and r['comp'] in ('reserv', 'wellbores', 'surfaceplant', 'economics') and r['pu'] == 'yr':
            rows.append(r)  # whole numbers of years (lifetime, escalation start years, credit duration) written in day / week / hr / ...
    seen, out = set(), []
    for r in rows:
        if r['name'] not in seen:
            seen.add(r['name'])
            out.append(r)
    return out


def _value_for(base, r):
    pd = dict(base)
    if r['name'] in pd:
        try:
            return float(pd[r['name']])
        except ValueError:
            return None
    d = r['default']
    if d is None or (isinstance(d, float) and d < 0 and float(r['min']) >= 0):
        return None  # sentinel default (-1 = 'not provided')
    return float(d)


YEAR_S = 365.25 * 86400.0  # the program converts with pint (Julian year); the quarter-year margin below makes the choice immaterial
INT_ECHO = {'Plant Lifetime': ('ECONOMIC PARAMETERS', 'Project lifetime')}


def eval_int_input(case, rec):
    """integer parameter counted in years: N (bare) against (N + 1/4) yr written in another catalogue time unit; the reader
    truncates to whole years, and a quarter year of margin keeps the pair equivalent under any 365..366-day year."""
    fam, name, alt, v = case['family'], case['name'], case['unit'], int(case['value'])
    base = families('thorough')[fam]
    sig = dict(dim='time_int', unit=alt, name=name)
    a = sim.run_params(gen.set_param(base, name, str(v)), want_report=True)
    if not a.ok:
        rec.case(case, nontrivial=False, labels=['bare_run_rejected'])
        return
    w = (v + 0.25) * YEAR_S / units.TABLE[alt][1]
    sval = repr(float(w))
    b = sim.run_params(gen.set_param(base, name, f'{sval} {alt}'), want_report=True)
    other = v + 1 if case.get('max') is None or v + 1 <= case['max'] else v - 1
    n = sim.run_params(gen.set_param(base, name, str(other)), want_report=False)
    influential = n.ok and close_snap(a.snap, n.snap, rel=1e-12) is not None
    rec.case(case, nontrivial=influential, labels=['dim:time_int', 'influential' if influential else 'not_influential'],
             key=[fam, name, alt, v], sample={'family': fam, 'line': f'{name}, {sval} {alt}', 'equivalent_bare': f'{name}, {v}'})
    if not b.ok:
        if b.exc['type'] == 'RunTimeout':
            rec.label('unit_run_hit_the_hang_guard')
            return
        rec.violation('raises', case, {'written_as': f'{sval} {alt}', 'error': b.exc}, error=str(b.exc['type']), **sig)
        return
    diff = close_snap(a.snap, b.snap)
    if diff:
        rec.violation('results', case, {'written_as': f'{sval} {alt}', 'equivalent_bare': f'{v} yr', **diff}, **sig)
    if name in INT_ECHO:
        sec, label = INT_ECHO[name]
        es = Report(b.report).find(sec, label)
        if es and es[0]['value'] is not None:
            e = es[0]
            if e['unit'] == 'yr':
                years = e['value']
            elif e['unit'] in units.TABLE and units.dim(e['unit']) == 'time':
                years = units.to_base(e['value'], e['unit']) / YEAR_S
            else:
                years = None
            if years is None or not (v - 0.01 <= years < v + 1):
                rec.violation('echo', case, {'written_as': f'{sval} {alt}', 'echo_line': e['raw'].strip(), 'supplied_years': v}, **sig)


def eval_input(case, rec):
    if case.get('int'):
        return eval_int_input(case, rec)
    fam, name, alt, v, pu = case['family'], case['name'], case['unit'], case['value'], case['from_unit']
    base = families('thorough')[fam]
    d = units.dim(pu)
    sig = dict(dim=d, unit=alt, name=name)

    def bad(clause, detail, **extra):
        rec.violation(clause, case, detail, **sig, **extra)

    a = sim.run_params(gen.set_param(base, name, gen.fmt(v)), want_report=True)
    if not a.ok:
        rec.case(case, nontrivial=False, labels=['bare_run_rejected'])
        return
    conv = units.convert(v, pu, alt)
    sval = gen.fmt(conv)
    b = sim.run_params(gen.set_param(base, name, f'{sval} {alt}'), want_report=True)
    # influence: does this parameter matter here?
    nudged = v * 1.07 if v != 0 else 0.07
    lo, hi = case.get('min'), case.get('max')
    if hi is not None and nudged > hi:
        nudged = v * 0.93
    n = sim.run_params(gen.set_param(base, name, gen.fmt(nudged)), want_report=False)
    influential = n.ok and close_snap(a.snap, n.snap, rel=1e-12) is not None
    identity = math.isclose(conv, v, rel_tol=1e-12) and alt == pu
    rec.case(case, nontrivial=influential and not identity, labels=[f'dim:{d}', 'influential' if influential else 'not_influential'],
             key=[fam, name, alt, v], sample={'family': fam, 'line': f'{name}, {sval} {alt}', 'equivalent_bare': f'{name}, {gen.fmt(v)}'}
             if hash((name, alt)) % 25 == 0 else None)
    if not b.ok:
        if b.exc['type'] == 'RunTimeout':
            rec.label('unit_run_hit_the_hang_guard')  # inconclusive, never a violation
            return
        bad('raises', {'written_as': f'{sval} {alt}', 'error': b.exc}, error=str(b.exc['type']))
        return
    diff = close_snap(a.snap, b.snap)
    if diff:
        bad('results', {'written_as': f'{sval} {alt}', 'equivalent_bare': gen.fmt(v) + ' ' + pu, **diff})
    if name in ECHO:
        sec, label = ECHO[name]
        es = Report(b.report).find(sec, label)
        if es:
            e = es[0]
            if e['unit'] in units.TABLE and units.dim(e['unit']) == d and e['value'] is not None:
                shown = units.to_base(e['value'], e['unit'])
                want = units.to_base(v, pu)
                dec = decimals_of(e['tok'])
                tol = abs(units.TABLE[e['unit']][1]) * 0.5 * 10 ** (-(dec or 0)) * 1.000001 + 1e-9 * abs(want)
                # the line may show a quantity derived from the input (e.g. the depth after the Tmax cap): then the reference is
                # what the bare-value run shows, not the number typed
                ea = Report(a.report).find(sec, label)
                if ea and ea[0]['unit'] in units.TABLE and units.dim(ea[0]['unit']) == d and ea[0]['value'] is not None:
                    shown_a = units.to_base(ea[0]['value'], ea[0]['unit'])
                    tol_a = abs(units.TABLE[ea[0]['unit']][1]) * 0.5 * 10 ** (-(decimals_of(ea[0]['tok']) or 0)) * 1.000001
                    if abs(shown_a - want) > tol_a + 1e-9 * abs(want):
                        want, tol = shown_a, tol + tol_a
                if abs(shown - want) > tol:
                    bad('echo', {'written_as': f'{sval} {alt}', 'echo_line': e['raw'].strip(), 'denotes_base': shown, 'supplied_base': want})
            elif e['unit'] != '' or d is not None:
                bad('echo', {'written_as': f'{sval} {alt}', 'echo_line': e['raw'].strip(), 'problem': 'unit label not of the supplied dimension'},
                    problem='label')


def _input_shard(spec, rec):
    base = families('thorough')[spec['family']]
    rows = _rows(base)
    mine = rows[spec['part']::spec['parts']]
    ints = [r for r in mine if r['kind'] == 'intParameter']
    mine = [r for r in mine if r['kind'] != 'intParameter']
    for r in ints:
        given = dict(base).get(r['name'])
        allow = [x for x in r['allowable'] if isinstance(x, int)]
        # a value other than the declared default (the reader returns early on the default), inside the allowable range
        v = int(float(given)) if given is not None else next((x for x in (3, 4, 7, 2) if x in allow and x != r['default']), None)
        if v is None:
            continue
        for alt in [u for u, (d, _, _) in units.TABLE.items() if d == 'time']:
            if rec.out_of_time():
                return
            eval_input({'kind': 'input', 'int': True, 'family': spec['family'], 'name': r['name'], 'unit': alt, 'value': v, 'from_unit': 'yr',
                        'max': max(allow) if allow else None}, rec)
    rec.count('integer_year_parameters_enumerated', len(ints))
    for r in mine:
        v = _value_for(base, r)
        if v is None:
            rec.count('skipped_sentinel_default')
            continue
        for alt in units.alternatives(r['pu']):
            if rec.out_of_time():
                return
            case = {'kind': 'input', 'family': spec['family'], 'name': r['name'], 'unit': alt, 'value': v, 'from_unit': r['pu'],
                    'min': r['min'], 'max': r['max']}
            eval_input(case, rec)
    rec.count('parameters_enumerated', len(mine))
    if spec['tier'] == 'thorough' and mine:
        # random in-range values on top of the enumeration
        @st.composite
        def cases(draw):
            r = draw(st.sampled_from(mine))
            lo, hi = float(r['min']), float(r['max'])
            if not (abs(lo) < 1e29 and abs(hi) < 1e29 and lo < hi):
                v = _value_for(base, r) or 1.0
            else:
                v = draw(gen.nice_floats(lo + (hi - lo) * 0.02, hi - (hi - lo) * 0.02))
            return {'kind': 'input', 'family': spec['family'], 'name': r['name'], 'unit': draw(st.sampled_from(units.alternatives(r['pu']))),
                    'value': v, 'from_unit': r['pu'], 'min': r['min'], 'max': r['max']}

        def fn(c):
            if not rec.out_of_time():
                eval_input(c, rec)
        drive(cases(), fn, 120, spec['seed'] * 1000 + spec['part'])


# ------------------------------------------------------------------ output-unit directive

def _displayed_outputs():
    """output Name -> list of (section, label) of the report lines that print it, from C09's committed line table"""
    lm = c09.line_map()
    out = {}
    for key, spec in lm.items():
        if not spec['candidates'] or spec['n_candidates'] != 1:
            continue  # only lines whose source quantity is unambiguous in the line table are attributed to an output
        q = spec['candidates'][0].split('|')[0]
        out.setdefault(q, []).append(tuple(key.split('||')))
    return out


STRIP = ('Simulation Date', 'Simulation Time', 'Calculation Time', 'GEOPHIRES Version')


def eval_output(case, rec):
    fam, oname, unit_new = case['family'], case['output'], case['unit']
    base = families('thorough')[fam]
    a = sim.run_params(base, want_report=True)
    b = sim.run_params(base + [[f'Units:{oname}', unit_new]], want_report=True)
    sig = dict(dim=units.dim(unit_new), unit=unit_new, output=oname)

    def bad(clause, detail, **extra):
        rec.violation(clause, case, detail, **sig, **extra)

    if not a.ok:
        rec.case(case, nontrivial=False, labels=['base_rejected'])
        return
    rec.case(case, nontrivial=True, labels=['directive', f'dim:{units.dim(unit_new)}'], key=[fam, oname, unit_new],
             sample=case if hash((oname, unit_new)) % 20 == 0 else None)
    if not b.ok:
        bad('directive_raises', {'directive': f'Units:{oname}, {unit_new}', 'error': b.exc}, error=str(b.exc['type']))
        return
    la = [ln for ln in a.report.splitlines() if not any(k in ln for k in STRIP)]
    lb = [ln for ln in b.report.splitlines() if not any(k in ln for k in STRIP)]
    if len(la) != len(lb):
        bad('directive_changes_report_structure', {'lines_without': len(la), 'lines_with': len(lb)})
        return
    ra = Report(a.report)
    lines_set = {tuple(x) for x in case['lines']}
    own = {(sec, e['label']) for sec, e in ra.entries() if (sec, e['label']) in lines_set}
    from ..report import LINE_RE
    explained = 0
    in_table = set()
    cur_tbl = False
    for k, ln in enumerate(la):
        st_ = ln.strip()
        if st_.startswith('*') and st_.endswith('*') and len(st_) > 6:
            cur_tbl = not set(st_) <= set('*') and 'PROFILE' in st_ or cur_tbl
        if cur_tbl:
            in_table.add(k)
    for k, (x, y) in enumerate(zip(la, lb)):
        if x == y:
            continue
        if k in in_table:
            rec.label('directive_changed_table_lines_not_verified')
            continue
        mx, my = LINE_RE.match(x), LINE_RE.match(y)
        if not (mx and my) or mx.group('label').strip() != my.group('label').strip():
            bad('directive_changes_other_line', {'without': x.strip()[:120], 'with': y.strip()[:120]})
            return
        label = mx.group('label').strip()
        ux, uy = (mx.group('unit') or '').strip(), (my.group('unit') or '').strip()
        vx, vy = to_float(mx.group('num')), to_float(my.group('num'))
        consistent = False
        if uy == unit_new and ux in units.TABLE and units.dim(ux) == units.dim(unit_new) and vx is not None and vy is not None:
            want = units.convert(vx, ux, unit_new)
            dx, dy = decimals_of(mx.group('num')) or 0, decimals_of(my.group('num')) or 0
            tol = 0.5 * 10 ** (-dy) + abs(units.factor(ux, unit_new)) * 0.5 * 10 ** (-dx) + 1e-9 * abs(want)
            consistent = abs(vy - want) <= tol * 1.000001
        if consistent:
            explained += 1  # the line shows this output: new label, value x exact factor
            continue
        mine_line = any(l == label for s_, l in case['lines'])
        if not mine_line:
            bad('directive_changes_other_line', {'without': x.strip()[:120], 'with': y.strip()[:120], 'lines_of_this_output': case['lines']})
        elif uy != unit_new:
            bad('directive_label', {'without': x.strip()[:120], 'with': y.strip()[:120], 'requested': unit_new})
        else:
            bad('directive_value', {'without': x.strip()[:120], 'with': y.strip()[:120]})
    changed = [1 for k, (x, y) in enumerate(zip(la, lb)) if x != y and k not in in_table]
    if not changed and own:
        bad('directive_ignored', {'directive': f'Units:{oname}, {unit_new}', 'lines_showing_this_output': sorted(own)[:4]})


def _output_shard(spec, rec):
    worker.init_worker()
    base = families('thorough')[spec['family']]
    m, e = sim.read_only(sim.render(base))
    if e:
        raise RuntimeError(f'HARNESS: {e}')
    disp = _displayed_outputs()
    todo = []
    for comp in ('reserv', 'wellbores', 'surfaceplant', 'economics'):
        obj = getattr(m, comp)
        attr_of = {id(p): a for a, p in vars(obj).items()}
        for key, p in obj.OutputParameterDict.items():
            cu = getattr(p.CurrentUnits, 'value', None)
            pu = getattr(p.PreferredUnits, 'value', None)
            attr = attr_of.get(id(p))
            lines = disp.get(f'{comp}.{attr}', []) if attr else []
            for alt in units.alternatives(pu if pu in units.TABLE else cu):
                todo.append({'kind': 'output', 'family': spec['family'], 'output': key, 'unit': alt, 'lines': [list(x) for x in lines]})
    # outputs the report shows first; the others are sampled (a directive for an output that is not printed must change nothing)
    todo.sort(key=lambda c: (0 if c['lines'] else 1, c['output'], c['unit']))
    shown = [c for c in todo if c['lines']]
    hidden = [c for c in todo if not c['lines']]
    mine = shown[spec['part']::spec['parts']] + hidden[spec['part']::spec['parts'] * (4 if spec['tier'] == 'quick' else 1)]
    for c in mine:
        if rec.out_of_time():
            return
        eval_output(c, rec)
    rec.count('directives_enumerated', len(mine))


def run_shard(spec, rec):
    if spec['kind'] == 'input':
        _input_shard(spec, rec)
    else:
        _output_shard(spec, rec)


def evaluate(case, rec):
    if case.get('kind') == 'input':
        eval_input(case, rec)
    else:
        eval_output(case, rec)


NO_SHRINK = True
