"""C04 - cash flow, cumulative cash flow, NPV, IRR, VIR, MOIC and payback are mutually consistent."""
import math
import re

from hypothesis import strategies as st

from .. import gen, sim, snapshot
from ..runner import drive

ID = 'C04'
LEVEL = 'exploration'
BUDGET_S = {'quick': 240, 'thorough': 1500}
RULE = ('Hypothesis configs() with the price layer (start/end/escalation per product, PTC, carbon pricing, construction '
        'years 1..14, Fixed Internal Rate, both NPV conventions), the cost layer and add-ons in a fraction of cases, '
        'lifetime 1..100. Oracle: independent rebuild of the yearly cash flow from the reported energy, price, carbon '
        'and O&M figures, running sum, NPV/IRR/VIR/MOIC/payback relations recomputed with plain loops; same '
        'metric relations for the add-on project series. Non-trivial = accepted run with (>=2 construction years or an '
        'escalating price or carbon revenue) whose cumulative cash flow changes sign at least once.')
ASSUMPTIONS = ['runs with non-positive total capital cost (grants exceed cost) are excluded by rule and counted: payback is not '
               'defined when the project starts cash-positive',
               'standard Economics class only; S-DAC-GT runs excluded (they rewrite cost totals after the fact)',
               'IRR relation tolerance: |NPV(IRR)| <= 1e-6 * sum_t |cf_t/(1+IRR)^t| (conditioning of the sum at that rate)']


@st.composite
def cliff_cases(draw):
    """operating cash flow that turns negative late in the project (an incentive expires, revenue drops below O&M): the
    cumulative series turns positive and falls back - the class where payback / N/A logic is most easily wrong"""
    rb = gen.RESERVOIRS[draw(st.sampled_from(['4', '3']))]
    life = draw(st.integers(20, 45))
    dur = draw(st.integers(3, life // 2))
    p = gen.merge(rb, gen.ELEC(draw(st.integers(1, 2))), draw(gen.econ_blocks())[1],
                  [['Plant Lifetime', str(life)], ['Time steps per year', str(draw(st.integers(1, 4)))],
                   ['Gradient 1', gen.fmt(draw(gen.nice_floats(55, 80)))],
                   ['Starting Electricity Sale Price', gen.fmt(draw(gen.nice_floats(0.005, 0.03)))],
                   ['Ending Electricity Sale Price', gen.fmt(draw(gen.nice_floats(0.005, 0.03)))],
                   ['Production Tax Credit Electricity', gen.fmt(draw(gen.nice_floats(0.08, 0.4)))],
                   ['Production Tax Credit Duration', str(dur)],
                   ['Total Capital Cost', gen.fmt(draw(gen.nice_floats(10, 90)))], ['Total O&M Cost', gen.fmt(draw(gen.nice_floats(1, 9)))],
                   ['Construction Years', str(draw(st.integers(1, 4)))]])
    return {'family': 'cliff', 'params': p, 'labels': ['incentive_cliff', 'ptc_elec', 'price_escalation']}


def strategy(tier):
    base = gen.configs(reservoirs=('4', '3'), slow_fraction=0.0 if tier == 'quick' else 0.03, addons=0.2, prices=True,
                       costs=True, examples=0.12)
    return st.one_of(base, base, base, base, base, base, cliff_cases())


def plan(tier, seed, shards):
    n = 1600 if tier == 'quick' else 40000
    return [{'kind': 'hyp', 'n': n // shards, 'seed': seed * 1000 + s, 'tier': tier} for s in range(shards)]


def run_shard(spec, rec):
    def fn(case):
        if rec.out_of_time():
            return
        evaluate(case, rec)

    drive(strategy(spec['tier']), fn, spec['n'], spec['seed'])


def close(a, b, rel=1e-9, abs_=1e-9):
    return math.isclose(float(a), float(b), rel_tol=rel, abs_tol=abs_)


def npv(rate, cfs, excel):
    tot = 0.0
    for t, c in enumerate(cfs):
        tot += c / (1.0 + rate) ** (t + (1 if excel else 0))
    return tot


def _crossings(cum):
    return [i for i in range(1, len(cum)) if cum[i] > 0 >= cum[i - 1]]


def _metrics(bad, scope, cf, cum, rate, excel, npv_rep, irr_rep, vir_rep, moic_rep, capex, opex, life):
    """relations implied by a reported cash-flow series"""
    # cumulative = running sum
    run = 0.0
    for i, c in enumerate(cf):
        run += c
        if not close(cum[i], run, rel=1e-9, abs_=1e-7):
            bad('cumulative_not_running_sum', {'year_index': i, 'reported': cum[i], 'running_sum': run}, scope=scope)
            break
    want_npv = npv(rate, cf, excel)
    scale = sum(abs(c) for c in cf) or 1.0
    if not close(npv_rep, want_npv, rel=1e-9, abs_=1e-9 * scale):
        bad('npv', {'reported': npv_rep, 'recomputed': want_npv, 'rate': rate, 'excel_convention': excel}, scope=scope)
    if irr_rep != 0:
        def resid(rate_):
            """(NPV at rate, sum of |discounted terms|): the residual is judged against the size of the terms it sums"""
            if rate_ <= -1:
                return float('inf'), 1.0
            return npv(rate_, cf, False), sum(abs(c) / (1.0 + rate_) ** t for t, c in enumerate(cf)) or 1.0
        rs, sc = resid(irr_rep / 100.0)
        if not abs(rs) <= 1e-6 * sc:
            rf, scf = resid(irr_rep)
            expl = 'fraction_reported_as_percent' if abs(rf) <= 1e-6 * scf else 'none'
            bad('irr_does_not_zero_npv', {'irr_reported_percent': irr_rep, 'npv_at_irr': rs, 'sum_abs_discounted_terms': sc},
                scope=scope, explained_by=expl)
    if capex != 0:
        if not close(vir_rep, 1.0 + want_npv / capex, rel=1e-9, abs_=1e-9):
            bad('vir', {'reported': vir_rep, 'expected': 1.0 + want_npv / capex}, scope=scope)
    denom = capex + opex * life
    if denom != 0:
        if not close(moic_rep, run / denom, rel=1e-9, abs_=1e-9):
            bad('moic', {'reported': moic_rep, 'expected': run / denom, 'cum_last': run, 'capex': capex, 'opex': opex}, scope=scope)


def evaluate(case, rec):
    r = sim.run_params(case['params'], want_report=True)
    labels = list(case.get('labels', []))
    if not r.ok:
        rec.case(case, nontrivial=False, labels=['rejected', 'rejected:' + str(r.exc['type'])])
        return
    s = r.snap
    if s['misc']['economics_class'] != 'Economics' or s.v('economics', 'DoSDACGTCalculations'):
        rec.case(case, nontrivial=False, labels=['excluded_non_standard_economics'])
        return
    e, sp = s['economics'], s['surfaceplant']
    enduse = snapshot.enum_int(sp['enduse_option'].value)
    plant = snapshot.enum_int(sp['plant_type'].value)
    cy, life = sp['construction_years'].value, sp['plant_lifetime'].value
    ccap, coam = e['CCap'].value, e['Coam'].value
    sig = dict(enduse=str(enduse), plant=str(plant))
    if ccap <= 0:
        rec.case(case, nontrivial=False, labels=['excluded_nonpositive_capex'])
        return

    def bad(clause, detail, **extra):
        rec.violation(clause, {'family': case.get('family'), 'params': case['params']}, detail, **sig, **extra)

    cf = [float(x) for x in e['TotalRevenue'].value]
    cum = [float(x) for x in e['TotalCummRevenue'].value]
    n = cy + life
    if len(cf) != n or len(cum) != n:
        bad('series_length', {'len_cashflow': len(cf), 'len_cumulative': len(cum), 'expected': n})
        rec.case(case, nontrivial=False, labels=labels)
        return
    # ---- product revenues and the cash flow built from them
    prods = []
    if enduse == 1:
        prods = [('ElecRevenue', 'NetkWhProduced', 'ElecPrice')]
    elif enduse == 2 and plant == 5:
        prods = [('CoolingRevenue', 'cooling_kWh_Produced', 'CoolingPrice')]
    elif enduse == 2:
        prods = [('HeatRevenue', 'HeatkWhProduced', 'HeatPrice')]
    else:
        prods = [('ElecRevenue', 'NetkWhProduced', 'ElecPrice'), ('HeatRevenue', 'HeatkWhProduced', 'HeatPrice')]
    carbon_on = bool(e['DoCarbonCalculations'].value)
    for t in range(n):
        if t < cy:
            want = -ccap / cy
        else:
            want = -coam
            for rev, en, pr in prods:
                energy = sp[en].value
                price = e[pr].value
                rv = float(energy[t - cy]) * float(price[t]) / 1e6
                if not close(e[rev].value[t], rv, rel=1e-9, abs_=1e-9):
                    bad('product_revenue', {'series': rev, 'year_index': t, 'reported': e[rev].value[t], 'energy_x_price': rv})
                want += rv
            if carbon_on:
                lbs = e['CarbonThatWouldHaveBeenProducedAnnually'].value[t]
                crv = float(lbs) * float(e['CarbonPrice'].value[t]) / 1e6
                if not close(e['CarbonRevenue'].value[t], crv, rel=1e-9, abs_=1e-9):
                    bad('carbon_revenue', {'year_index': t, 'reported': e['CarbonRevenue'].value[t], 'lbs_x_price': crv})
                want += crv
        if not close(cf[t], want, rel=1e-9, abs_=1e-7):
            bad('cash_flow_year', {'year_index': t, 'construction_years': cy, 'reported': cf[t], 'expected': want},
                phase='construction' if t < cy else 'operation')
            break
    rate = e['FixedInternalRate'].value / 100.0
    excel = bool(e['discount_initial_year_cashflow'].value)
    _metrics(bad, 'project', cf, cum, rate, excel, e['ProjectNPV'].value, e['ProjectIRR'].value, e['ProjectVIR'].value,
             e['ProjectMOIC'].value, ccap, coam, life)
    # ---- payback
    p = e['ProjectPaybackPeriod'].value
    cr = _crossings(cum)
    m = re.search(r'Project Payback Period:\s+(\S+)', r.report or '')
    shown = m.group(1) if m else None
    if cr:
        if not any(i <= p <= i + 1 for i in cr):
            bad('payback_not_in_crossing_year', {'payback': p, 'crossing_year_indices': cr[:5]})
        if shown == 'N/A':
            bad('payback_na_but_turns_positive', {'crossing_year_indices': cr[:5], 'payback_value': p})
    else:
        if shown is not None and shown != 'N/A':
            bad('payback_shown_but_never_positive', {'shown': shown, 'payback_value': p, 'cum_max': max(cum)})
    # ---- add-on project series
    if e['DoAddOnCalculations'].value and s.get('addeconomics'):
        a = s['addeconomics']
        pcf = [float(x) for x in a['ProjectCashFlow'].value]
        pcum = [float(x) for x in a['ProjectCummCashFlow'].value]
        if len(pcf) != n:
            bad('series_length', {'len_project_cashflow': len(pcf), 'expected': n}, scope='addon')
        else:
            arate = a['FixedInternalRate'].value / 100.0
            aexcel = bool(a['discount_initial_year_cashflow'].value)
            acapex, aopex = a['AdjustedProjectCAPEX'].value, a['AdjustedProjectOPEX'].value
            if not close(acapex, ccap + a['AddOnCAPEXTotal'].value):
                bad('addon_adjusted_capex', {'reported': acapex, 'expected': ccap + a['AddOnCAPEXTotal'].value}, scope='addon')
            if not close(aopex, coam + a['AddOnOPEXTotalPerYear'].value):
                bad('addon_adjusted_opex', {'reported': aopex, 'expected': coam + a['AddOnOPEXTotalPerYear'].value}, scope='addon')
            for t in range(cy):
                if not close(pcf[t], -acapex / cy, rel=1e-9, abs_=1e-7):
                    bad('cash_flow_year', {'year_index': t, 'reported': pcf[t], 'expected': -acapex / cy}, scope='addon',
                        phase='construction')
                    break
            _metrics(bad, 'addon', pcf, pcum, arate, aexcel, a['ProjectNPV'].value, a['ProjectIRR'].value,
                     a['ProjectVIR'].value, a['ProjectMOIC'].value, acapex, aopex, life)
        labels.append('addon_series_checked')
    # ---- classification
    escal = any(n_.endswith('Escalation Rate Per Year') and float(v) > 0 for n_, v in case['params'])
    sign_change = any((cum[i] > 0) != (cum[i - 1] > 0) for i in range(1, n))
    nontrivial = (cy >= 2 or escal or carbon_on) and sign_change
    if cr and cum[-1] <= 0:
        labels.append('turns_positive_then_ends_nonpositive')
    labels += [f'enduse:{enduse}', 'pays_back' if cr else 'never_pays_back', f'cy:{min(cy, 5)}{"+" if cy > 5 else ""}']
    if carbon_on:
        labels.append('carbon_on')
    if excel:
        labels.append('excel_npv')
    if e['ProjectIRR'].value != 0:
        labels.append('irr_nonzero')
    rec.case(case, nontrivial=nontrivial, labels=labels, key=case['params'],
             sample={'family': case.get('family'), 'params': case['params'],
                     'observed': {'NPV': e['ProjectNPV'].value, 'IRR': e['ProjectIRR'].value, 'payback': p,
                                  'construction_years': cy, 'lifetime': life}})
