"""C09 - the text case report states what was computed: every scalar figure equals the corresponding computed quantity at
the displayed precision with that quantity's unit; profile tables have one row per simulated (and construction) year,
in order, each cell being the series value of that year."""
import json
import math
import os

import numpy as np
from hypothesis import strategies as st

from .. import gen, sim, snapshot, VERIF_DIR
from ..report import Report, to_float, decimals_of
from ..runner import drive
from .. import learn_c09

ID = 'C09'
LEVEL = 'exploration'
BUDGET_S = {'quick': 300, 'thorough': 1500}
RULE = ('Hypothesis configs() over every end-use / plant-type / economic-model branch of the writer (cost, price, carbon, add-on, '
        'overpressure and fracture-geometry layers; lifetimes 1..100, construction years 1..14, time steps per year 1..n, '
        'example-seeded cases incl. S-DAC-GT). The report is tokenized by an independent section-scoped tokenizer. Scalar '
        'lines: a committed table (gxv/report_map.json: (section,label) -> snapshot quantity x reduction x scale, learned '
        'once on the pinned tree from 1 200 diverse runs and reviewed) gives the quantity each line must show; the printed '
        'number must equal it rounded to the displayed precision and the unit must be one recorded for that line. Tables: '
        'hand-written specifications per plant class (row count, year order, every cell = series[year x stride] at the '
        'displayed precision). Lines without a specification are counted as unmapped and listed. Non-trivial = accepted run '
        'with >= 2 time steps per year or >= 2 construction years whose report contains >= 3 optional blocks.')
ASSUMPTIONS = ['the scalar table encodes the pinned tree\'s line -> quantity mapping (regression oracle): a line that was already '
               'wrong on the pinned tree is invisible to it; table specifications are written from the documented semantics',
               'bare inputs only (unit-suffixed inputs are C06\'s subject)']

_MAP = {}


def line_map():
    if 'm' not in _MAP:
        p = os.path.join(VERIF_DIR, 'gxv', 'report_map.json')
        with open(p) as f:
            _MAP['m'] = json.load(f)
    return _MAP['m']


@st.composite
def extras(draw):
    blk, labels = [], []
    if draw(st.integers(0, 3)) == 0:
        blk += [['Reservoir Volume Option', str(draw(st.integers(1, 4)))], ['Fracture Shape', str(draw(st.integers(1, 4)))],
                ['Fracture Height', gen.fmt(draw(gen.nice_floats(100, 1500)))], ['Fracture Width', gen.fmt(draw(gen.nice_floats(100, 1500)))],
                ['Fracture Area', gen.fmt(draw(gen.nice_floats(5e4, 1e6)))], ['Number of Fractures', gen.fmt(draw(gen.nice_floats(2, 40)))],
                ['Fracture Separation', gen.fmt(draw(gen.nice_floats(20, 150)))], ['Reservoir Volume', gen.fmt(draw(gen.nice_floats(1e8, 5e9)))]]
        labels.append('fracture_geometry')
    if draw(st.integers(0, 5)) == 0:
        blk += [['Overpressure Percentage', gen.fmt(draw(gen.nice_floats(101, 200)))], ['Overpressure Depletion Rate', gen.fmt(draw(gen.nice_floats(1, 30)))],
                ['Injection Reservoir Inflation Rate', gen.fmt(draw(gen.nice_floats(0, 500)))]]
        labels.append('overpressure')
    if draw(st.integers(0, 3)) == 0:
        blk += [['Number of Segments', '3'], ['Gradient 2', gen.fmt(draw(gen.nice_floats(20, 60)))], ['Gradient 3', gen.fmt(draw(gen.nice_floats(20, 60)))],
                ['Thickness 1', gen.fmt(draw(gen.nice_floats(0.5, 2)))], ['Thickness 2', gen.fmt(draw(gen.nice_floats(0.5, 2)))]]
        labels.append('multi_segment')
    return labels, blk


@st.composite
def strategy_(draw, tier):
    base = draw(gen.configs(reservoirs=('4', '3'), slow_fraction=0.06 if tier != 'quick' else 0.03, addons=0.12, costs=True, prices=True,
                            examples=0.18, sdac=0.03))
    if base['family'] == 'example:example1_outputunits':
        # output-unit directives are C06's subject: the line table is for default output units
        base['params'] = [p for p in base['params'] if not p[0].startswith('Units:')]
    labels, blk = draw(extras())
    params = gen.merge(base['params'], blk)
    pd = dict(params)
    if 'overpressure' in labels and 'Reservoir Impedance' in pd:
        params = gen.merge(gen.drop_param(params, 'Reservoir Impedance'), [['Productivity Index', '6'], ['Injectivity Index', '6']])
    return {'family': base['family'], 'params': params, 'labels': base.get('labels', []) + labels}


def strategy(tier):
    return strategy_(tier)


def plan(tier, seed, shards):
    n = 1000 if tier == 'quick' else 40000
    return [{'kind': 'hyp', 'n': n // shards, 'seed': seed * 1000 + s, 'tier': tier} for s in range(shards)]


def run_shard(spec, rec):
    def fn(case):
        if rec.out_of_time():
            return
        evaluate(case, rec)
    drive(strategy(spec['tier']), fn, spec['n'], spec['seed'])


# ------------------------------------------------------------------ hand-written specifications for lines that are
# expressions of several quantities (documented meaning of the label); each returns the acceptable values

def _v(s, sec, a):
    return float(s[sec][a].value)


def _hand_specs():
    def per_well(s, e):
        return [_v(s, 'economics', 'Cwell') / (s['wellbores']['nprod'].value + s['wellbores']['ninj'].value)]

    def casing(attr):
        def f(s, e):
            d = _v(s, 'wellbores', attr)
            d_m = d * 0.0254 if d > 2.0 else d  # the snapshot holds metres after the run, inches only if the run never converted
            return [d_m / 0.0254] if e['unit'] in ('in', 'inch') else [d_m]
        return f

    def depth(s, e):
        p = s['reserv']['depth']
        m = float(p.value) * (1000.0 if (p.cu or '').startswith('kilo') else 1.0)
        return [m / 1000.0] if e['unit'].startswith('kilo') else [m]

    def total_oam(s, e):
        ec = s['economics']
        base = float(ec['Coam'].value)
        extra = float(ec['averageannualpumpingcosts'].value) + float(ec['averageannualheatpumpelectricitycost'].value)
        ng = float(ec['averageannualngcost'].value) if 'averageannualngcost' in ec else 0.0
        return [base, base + extra, base + extra + ng]

    def dh_geo(s, e):
        sp = s['surfaceplant']
        return [float(np.sum(np.asarray(sp['dh_geothermal_heating'].value, dtype=float) * 24) / sp['plant_lifetime'].value / 1e3)]

    return {
        'CAPITAL COSTS (M$)||Annualized capital costs': lambda s, e: [_v(s, 'economics', 'CCap') * (1 + _v(s, 'economics', 'inflrateconstruction')) * _v(s, 'economics', 'FCR')],
        'CAPITAL COSTS (M$)||Drilling and completion costs per well': per_well,
        'CAPITAL COSTS (M$)||Drilling and completion costs per redrilled well': per_well,
        'CAPITAL COSTS (M$)||Total surface equipment costs': lambda s, e: [_v(s, 'economics', 'Cplant') + _v(s, 'economics', 'Cgath')],
        'ECONOMIC PARAMETERS||CHP: Percent cost allocation for electrical plant': lambda s, e: [_v(s, 'economics', 'CAPEX_heat_electricity_plant_ratio') * 100.0],
        'ENGINEERING PARAMETERS||Injection well casing ID': casing('injwelldiam'),
        'ENGINEERING PARAMETERS||Production well casing ID': casing('prodwelldiam'),
        'ENGINEERING PARAMETERS||Well depth': depth,
        'SUMMARY OF RESULTS||Well depth': depth,
        'OPERATING AND MAINTENANCE COSTS (M$/yr)||Total operating and maintenance costs': total_oam,
        'SUMMARY OF RESULTS||Average Annual Geothermal Heat Production': dh_geo,
        'SURFACE EQUIPMENT SIMULATION RESULTS||Initial pumping power/net installed power':
            lambda s, e: [float(np.asarray(s['wellbores']['PumpingPower'].value, dtype=float)[0]) /
                          float(np.asarray(s['surfaceplant']['NetElectricityProduced'].value, dtype=float)[0]) * 100.0],
        # SUTRA writer only (its own code): average of the absolute production well flow rates
        'SUMMARY OF RESULTS||Lifetime Average Well Flow Rate': lambda s, e: [float(np.average(np.abs(np.asarray(s['wellbores']['ProductionWellFlowRates'].value, dtype=float))))],
        'ENGINEERING PARAMETERS||Lifetime Average Well Flow Rate': lambda s, e: [float(np.average(np.abs(np.asarray(s['wellbores']['ProductionWellFlowRates'].value, dtype=float))))],
        'ECONOMIC PARAMETERS||Project Payback Period': lambda s, e: [_v(s, 'economics', 'ProjectPaybackPeriod')] if e['unit'] == 'yr' else [],
        'SUMMARY OF RESULTS||Total Avoided Carbon Emissions': lambda s, e: [_v(s, 'economics', 'CarbonThatWouldHaveBeenProducedTotal') *
                                                                            (0.45359237e-6 if e['unit'] == 'kilotonne' else 1.0)] if e['unit'] in ('kilotonne', 'pound') else [],
    }


HAND = _hand_specs()


# ------------------------------------------------------------------ helpers

def cell_ok(tok, want):
    """printed token equals `want` rounded to the printed precision"""
    v = to_float(tok)
    if v is None or want is None:
        return False
    if isinstance(want, float) and (want != want or abs(want) == float('inf')):
        return str(want).lower().replace('+', '') in tok.lower() or (want != want and 'nan' in tok.lower())
    d = decimals_of(tok)
    if d is None:
        return math.isclose(v, want, rel_tol=1e-3)
    return abs(v - want) <= 0.5 * 10 ** (-d) * (1 + 1e-9) + 1e-9 * abs(want)


def series(p):
    return np.asarray(p.value, dtype=float)


def table_specs(s):
    """title -> (expected row count, [column functions year_index -> expected value or None to skip])"""
    sp, wb, ec, rs = s['surfaceplant'], s['wellbores'], s['economics'], s['reserv']
    enduse = snapshot.enum_int(sp['enduse_option'].value)
    plant = snapshot.enum_int(sp['plant_type'].value)
    L, t, cy = sp['plant_lifetime'].value, ec['timestepsperyear'].value, sp['construction_years'].value
    specs = {}
    if s['misc']['outputs_class'] != 'Outputs':
        return specs, (enduse, plant)
    tp, pump = series(wb['ProducedTemperature']), series(wb['PumpingPower'])
    at = lambda a: (lambda i: float(a[i * t]))
    dd = lambda i: float(tp[i * t] / tp[0])
    cogen = enduse not in (1, 2)
    if enduse == 1:
        ne, fle = series(sp['NetElectricityProduced']), series(sp['FirstLawEfficiency'])
        cols = [lambda i: i + 1, dd, at(tp), at(pump), at(ne), lambda i: float(fle[i * t] * 100)]
    elif enduse == 2 and plant == 6:
        cols = [lambda i: i, dd, at(tp), at(pump), at(series(sp['HeatProduced'])), at(series(sp['heat_pump_electricity_used']))]
    elif enduse == 2 and plant == 7:
        cols = [lambda i: i, dd, at(tp), at(pump), at(series(sp['HeatProduced']))]
    elif enduse == 2 and plant == 5:
        cols = [lambda i: i, dd, at(tp), at(pump), at(series(sp['HeatProduced'])), at(series(sp['cooling_produced']))]
    elif enduse == 2:
        cols = [lambda i: i, dd, at(tp), at(pump), at(series(sp['HeatProduced']))]
    else:
        ne, fle = series(sp['NetElectricityProduced']), series(sp['FirstLawEfficiency'])
        cols = [lambda i: i, dd, at(tp), at(pump), at(ne), at(series(sp['HeatProduced'])), lambda i: float(fle[i * t] * 100)]
    specs['HEATING, COOLING AND/OR ELECTRICITY PRODUCTION PROFILE'] = (L, cols)
    rem = series(sp['RemainingReservoirHeatContent'])
    init = float(rs['InitialReservoirHeatContent'].value)
    mined = lambda i: float((init - rem[i]) * 100 / init)
    e6 = lambda name: (lambda i: float(series(sp[name])[i] / 1e6))
    yr = lambda i: i + 1
    if enduse == 1:
        cols = [yr, e6('NetkWhProduced'), e6('HeatkWhExtracted'), lambda i: float(rem[i]), mined]
    elif plant == 5:
        cols = [yr, e6('cooling_kWh_Produced'), e6('HeatkWhExtracted'), lambda i: float(rem[i]), mined]
    elif plant == 6:
        cols = [yr, e6('HeatkWhProduced'), e6('HeatkWhExtracted'), e6('heat_pump_electricity_kwh_used'), lambda i: float(rem[i]), mined]
    elif cogen:
        cols = [yr, e6('HeatkWhProduced'), e6('NetkWhProduced'), e6('HeatkWhExtracted'), lambda i: float(rem[i]), mined]
    elif plant == 7:
        ng = series(sp['annual_ng_demand'])
        cols = [yr, e6('HeatkWhProduced'), lambda i: float(ng[i] / 1e3), e6('HeatkWhExtracted'), lambda i: float(rem[i]), mined]
    else:
        cols = [yr, e6('HeatkWhProduced'), e6('HeatkWhExtracted'), lambda i: float(rem[i]), mined]
    specs['ANNUAL HEATING, COOLING AND/OR ELECTRICITY PRODUCTION PROFILE'] = (L, cols)
    # revenue & cash flow: one row per construction + operating year
    coam = float(ec['Coam'].value)

    def price(name):
        p = ec[name]
        scale = 100.0 if (p.cu or '').startswith('USD/') and (p.pu or '').startswith('cents/') else 1.0
        a = series(p)
        return lambda i: float(a[i] * scale)
    g = lambda name: (lambda i: float(series(ec[name])[i]))
    cols = [lambda i: i, price('ElecPrice'), g('ElecRevenue'), g('ElecCummRevenue'), price('HeatPrice'), g('HeatRevenue'),
            g('HeatCummRevenue'), price('CoolingPrice'), g('CoolingRevenue'), g('CoolingCummRevenue'), price('CarbonPrice'),
            g('CarbonRevenue'), g('CarbonCummCashFlow'), lambda i: 0.0 if i < cy else coam, g('TotalRevenue'), g('TotalCummRevenue')]
    specs['REVENUE & CASHFLOW PROFILE'] = (cy + L, cols)
    if wb['overpressure_percentage'].provided:
        pp, pi = wb['PumpingPowerProd'].value, wb['PumpingPowerInj'].value
        if hasattr(pp, '__len__') and hasattr(pi, '__len__'):
            specs['RESERVOIR POWER REQUIRED PROFILES'] = (L, [yr, at(series(wb['PumpingPowerProd'])), at(series(wb['PumpingPowerInj'])), at(pump)])
    if ec['DoSDACGTCalculations'].value and s.get('sdacgteconomics'):
        sd = s['sdacgteconomics']
        gs = lambda name: (lambda i: float(np.asarray(sd[name].value, dtype=float)[i]))
        specs['S-DAC-GT PROFILE'] = (L, [yr, gs('CarbonExtractedAnnually'), gs('S_DAC_GTCummCarbonExtracted'), gs('S_DAC_GTAnnualCost'),
                                         gs('S_DAC_GTCummCashFlow'), gs('CummCostPerTonne')])
    if ec['DoAddOnCalculations'].value and s.get('addeconomics'):
        specs['EXTENDED ECONOMIC PROFILE'] = (cy + L, [yr])
    return specs, (enduse, plant)


def evaluate(case, rec):
    r = sim.run_params(case['params'], want_report=True)
    labels = list(case.get('labels', []))
    if not r.ok or not r.report:
        rec.case(case, nontrivial=False, labels=['rejected', 'rejected:' + str((r.exc or {}).get('type'))])
        return
    s = r.snap
    rep = Report(r.report)
    lm = line_map()
    sig = {}

    def bad(clause, detail, **extra):
        rec.violation(clause, {'family': case.get('family'), 'params': case['params']}, detail, **extra)

    cands = learn_c09.candidates(s)
    n_checked = n_unmapped = 0
    for sec, e in rep.entries():
        if sec in learn_c09.SKIP_SECTIONS or sec.startswith('TABLE:'):
            continue
        key = f'{sec}||{e["label"]}'
        spec = lm.get(key)
        if key == 'ECONOMIC PARAMETERS||Project Payback Period' and e['value'] is None:
            # 'N/A' stands for "no payback": the computed period must then be absent (<= 0)
            try:
                pb = _v(s, 'economics', 'ProjectPaybackPeriod')
            except (KeyError, TypeError, ValueError):
                continue
            n_checked += 1
            if 'N/A' not in e['raw'] or pb > 0.0:
                bad('scalar_line', {'section': sec, 'label': e['label'], 'printed': e['raw'].strip(), 'quantity': 'hand specification', 'computed': pb,
                                    'line': e['raw'].strip()}, section=sec, label=e['label'])
            continue
        if key in HAND and e['value'] is not None:
            try:
                wants = HAND[key](s, e)
            except (KeyError, TypeError, ValueError, ZeroDivisionError):
                rec.label('quantity_absent_for:' + key)
                continue
            n_checked += 1
            if not any(cell_ok(e['tok'], w) for w in wants):
                bad('scalar_line', {'section': sec, 'label': e['label'], 'printed': e['tok'], 'quantity': 'hand specification', 'computed': wants,
                                    'line': e['raw'].strip()}, section=sec, label=e['label'])
            continue
        if not spec or not spec['candidates']:
            n_unmapped += 1
            rec.label('unmapped:' + key)
            continue
        if e['value'] is None:
            continue  # N/A (payback) is C04's clause
        n_checked += 1
        ok = False
        best = None
        for cname in spec['candidates']:
            q, red, sc = cname.split('|')
            v = cands.get(f'{q}|{red}')
            if v is None:
                continue
            want = v * float(sc)
            best = best if best is not None else (cname, want)
            if cell_ok(e['tok'], want):
                ok = True
                break
        if best is None:
            rec.label('quantity_absent_for:' + key)
            continue
        if not ok:
            bad('scalar_line', {'section': sec, 'label': e['label'], 'printed': e['tok'], 'quantity': best[0], 'computed': best[1], 'line': e['raw'].strip()},
                section=sec, label=e['label'])
        if e['unit'] not in spec['units_seen']:
            bad('unit_label', {'section': sec, 'label': e['label'], 'printed_unit': e['unit'], 'units_recorded_for_line': spec['units_seen'], 'line': e['raw'].strip()},
                section=sec, label=e['label'])
    # ---- tables
    try:
        specs, (enduse, plant) = table_specs(s)
    except (KeyError, TypeError, ValueError, IndexError) as ex:
        specs, (enduse, plant) = {}, (None, None)
        rec.label('table_spec_unavailable:' + type(ex).__name__)
    n_tables = 0
    for title, tb in rep.tables.items():
        if title not in specs:
            rec.label('table_without_spec:' + title)
            continue
        n_tables += 1
        nrows, cols = specs[title]
        rows = tb['rows']
        if len(rows) != nrows:
            bad('table_row_count', {'table': title, 'rows': len(rows), 'expected': nrows}, table=title,
                off=str(len(rows) - nrows))
        years = [to_float(rw[0]) for rw in rows]
        if any(b <= a for a, b in zip(years, years[1:])):
            bad('table_years_not_increasing', {'table': title, 'years': years[:8]}, table=title)
        for i, rw in enumerate(rows[:nrows]):
            if len(cols) > 1 and len(rw) != len(cols):
                bad('table_column_count', {'table': title, 'row': i, 'cells': len(rw), 'expected': len(cols), 'raw': tb['raw_rows'][i].strip()[:160]},
                    table=title)
                break
            stop = False
            for c, fn in enumerate(cols):
                try:
                    want = fn(i)
                except (IndexError, ZeroDivisionError, FloatingPointError):
                    continue
                if not cell_ok(rw[c], want):
                    bad('table_cell', {'table': title, 'row': i, 'column': c, 'printed': rw[c], 'computed': want, 'raw': tb['raw_rows'][i].strip()[:160]},
                        table=title, column=str(c))
                    stop = True
                    break
            if stop:
                break
    sp, ec = s['surfaceplant'], s['economics']
    tspy, cy = ec['timestepsperyear'].value, sp['construction_years'].value
    optional = sum(1 for x in ('carbon', 'addons1', 'addons2', 'addons3', 'overpressure', 'multi_segment', 'fracture_geometry', 'itc', 'sdac')
                   if x in labels) + (1 if enduse not in (1, None) else 0) + (1 if plant in (5, 6, 7) else 0)
    nt = (tspy >= 2 or cy >= 2) and optional >= 3
    rec.count('scalar_lines_checked', n_checked)
    rec.count('scalar_lines_unmapped', n_unmapped)
    rec.count('tables_checked', n_tables)
    rec.case(case, nontrivial=nt, labels=[l for l in labels if not l.startswith(('res', 'econ'))] + [f'enduse:{enduse}', f'plant:{plant}', f'cy>1:{cy > 1}'],
             key=case['params'], sample={'family': case.get('family'), 'params': case['params'], 'lines_checked': n_checked, 'tables': sorted(rep.tables)})
