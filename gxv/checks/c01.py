"""C01 - reported LCOE / LCOH / LCOC equal the documented formula of the selected economic model applied to the
run's own reported capital cost, O&M, other annual costs and yearly energy series."""
import math

from .. import gen, sim, snapshot
from ..runner import drive

ID = 'C01'
LEVEL = 'exploration'
BUDGET_S = {'quick': 240, 'thorough': 1500}
RULE = ('Hypothesis configs(): econ model {1,2,3} x end-use {1,2,31..52} x plant type (1-4 power, 9 industrial, legacy 1-4 '
        'with direct use, chiller, heat pump, district heating) x reservoir model {3,4 (+1,2 thorough)}, example-seeded '
        'cases, cost layer, add-ons in a fraction of cases, lifetime 1..100, drawdown/redrilling so that yearly energy '
        'varies. Oracle: independent scalar-loop reference of the FCR / Standard / BICYCLE formulas applied to the reported '
        'CCap, Coam, allocation ratio, yearly energy and other-annual-cost series (rel 1e-9). Non-trivial = accepted '
        'run whose checked product has energy > 0 in every year and a non-constant yearly series (or lifetime 1); '
        'distinct by full parameter set.')
ASSUMPTIONS = [
    '"other annual costs": purchased pumping electricity for heat-only end uses, heat-pump electricity, peaking fuel '
    '(demand x price / boiler efficiency); none for electricity and cogeneration (pumping is parasitic there)',
    'standard Economics class, econ model 1-3; S-DAC-GT runs excluded; cogeneration with a heat-only plant type is incoherent input and excluded',
]
REL = 1e-9


def strategy(tier):
    return gen.configs(reservoirs=('4', '3'), slow_fraction=0.0 if tier == 'quick' else 0.03, addons=0.12, prices=True,
                       costs=True, examples=0.15)


def plan(tier, seed, shards):
    n = 1600 if tier == 'quick' else 40000
    return [{'kind': 'hyp', 'n': n // shards, 'seed': seed * 1000 + s, 'tier': tier} for s in range(shards)]


def run_shard(spec, rec):
    def fn(case):
        if rec.out_of_time():
            return
        evaluate(case, rec)

    drive(strategy(spec['tier']), fn, spec['n'], spec['seed'])


def close(a, b):
    return math.isclose(float(a), float(b), rel_tol=REL, abs_tol=1e-12)


# ----------------------------------------------------------------------------- reference formulas (plain loops)

def ref_fcr(fcr, ic, ccap, coam, other, energy):
    """(FCR*(1+ic)*Ccap + Coam + mean(other)) / mean(E)   [M$/kWh]"""
    n = len(energy)
    mean_e = sum(energy) / n
    mean_o = (sum(other) / len(other)) if other else 0.0
    return (fcr * (1.0 + ic) * ccap + coam + mean_o) / mean_e


def ref_standard(d, ic, ccap, coam, other, energy):
    num = (1.0 + ic) * ccap
    den = 0.0
    for t in range(len(energy)):
        df = 1.0 / (1.0 + d) ** t
        num += (coam + (other[t] if other else 0.0)) * df
        den += energy[t] * df
    return num / den


def ref_bicycle(b, ic, ccap, coam, other, energy):
    life = len(energy)
    iave = b['FIB'] * b['BIR'] * (1 - b['CTR']) + (1 - b['FIB']) * b['EIR']
    crf = iave / (1 - (1 + iave) ** (-life))
    npvcap = npvfc = npvit = npvoam = den = 0.0
    for t in range(1, life + 1):
        disc = 1.0 / (1 + iave) ** t
        infl = (1 + b['RINFL']) ** t
        npvcap += (1 + ic) * ccap * crf * disc
        npvfc += (1 + ic) * ccap * b['PTR'] * infl * disc
        npvit += b['CTR'] / (1 - b['CTR']) * ((1 + ic) * ccap * crf - ccap / life) * disc
        npvoam += (coam + (other[t - 1] if other else 0.0)) * infl * disc
        den += energy[t - 1] * infl * disc
    npvitc = (1 + ic) * ccap * b['RITC'] / (1 - b['CTR'])
    base = npvcap + npvoam + npvfc + npvit - npvitc
    npvgrt = b['GTR'] / (1 - b['GTR']) * base
    return (base + npvgrt) / den


def reference(model_id, econ, ccap, coam, other, energy):
    ic = econ['ic']
    if model_id == 1:
        return ref_fcr(econ['FCR'], ic, ccap, coam, other, energy)
    if model_id == 2:
        return ref_standard(econ['d'], ic, ccap, coam, other, energy)
    return ref_bicycle(econ, ic, ccap, coam, other, energy)


def _series(v, n):
    if hasattr(v, '__len__'):
        return [float(x) for x in v]
    return [float(v)] * n


def evaluate(case, rec):
    r = sim.run_params(case['params'], want_report=False)
    labels = list(case.get('labels', []))
    if not r.ok:
        rec.case(case, nontrivial=False, labels=['rejected', 'rejected:' + str(r.exc['type'])])
        return
    s = r.snap
    e, sp = s['economics'], s['surfaceplant']
    model_id = snapshot.enum_int(e['econmodel'].value)
    if (s['misc']['economics_class'] != 'Economics' or e['DoSDACGTCalculations'].value or model_id not in (1, 2, 3)):
        rec.case(case, nontrivial=False, labels=['excluded_non_standard_economics'])
        return
    enduse = snapshot.enum_int(sp['enduse_option'].value)
    plant = snapshot.enum_int(sp['plant_type'].value)
    life = sp['plant_lifetime'].value
    if enduse not in (1, 2) and plant not in (1, 2, 3, 4):
        rec.case(case, nontrivial=False, labels=['excluded_incoherent_cogen_heat_plant'])
        return
    ccap, coam = float(e['CCap'].value), float(e['Coam'].value)
    ratio = float(e['CAPEX_heat_electricity_plant_ratio'].value)
    econ = {'ic': float(e['inflrateconstruction'].value), 'FCR': float(e['FCR'].value), 'd': float(e['discountrate'].value),
            'FIB': float(e['FIB'].value), 'BIR': float(e['BIR'].value), 'CTR': float(e['CTR'].value),
            'EIR': float(e['EIR'].value), 'RINFL': float(e['RINFL'].value), 'PTR': float(e['PTR'].value),
            'RITC': float(e['RITC'].value), 'GTR': float(e['GTR'].value)}
    rate = float(sp['electricity_cost_to_buy'].value)
    pumping = [x * rate / 1e6 for x in _series(sp['PumpingkWh'].value, life)]
    zeros = [0.0] * life
    eclass = {1: 'electricity', 2: 'heat'}.get(enduse, 'cogen')
    if enduse == 2:
        eclass = {5: 'chiller', 6: 'heatpump', 7: 'district'}.get(plant, 'heat')
    pclass = 'power' if plant in (1, 2, 3, 4) else 'heat'
    sig = dict(econ=str(model_id), enduse=eclass, plantclass=pclass)

    def bad(clause, detail, **extra):
        rec.violation(clause, {'family': case.get('family'), 'params': case['params']}, detail, **sig, **extra)

    checks = []  # (clause, reported, unit factor, capex, opex, other series, energy series, {variant name: other series})
    netkwh = _series(sp['NetkWhProduced'].value, life)
    heatkwh = _series(sp['HeatkWhProduced'].value, life)
    if eclass == 'electricity':
        checks.append(('lcoe', e['LCOE'].value, 1e8, ccap, coam, zeros, netkwh, {}))
    elif eclass == 'heat':
        checks.append(('lcoh', e['LCOH'].value, 1e8 * 2.931, ccap, coam, pumping, heatkwh, {'pumping_cost_dropped': zeros}))
    elif eclass == 'cogen':
        checks.append(('lcoe', e['LCOE'].value, 1e8, ccap * ratio, coam * ratio, zeros, netkwh, {}))
        checks.append(('lcoh', e['LCOH'].value, 1e8 * 2.931, ccap * (1 - ratio), coam * (1 - ratio), zeros, heatkwh,
                       {'pumping_cost_added': pumping}))
    elif eclass == 'chiller':
        cool = _series(sp['cooling_kWh_Produced'].value, life)
        checks.append(('lcoc', e['LCOC'].value, 1e8 * 2.931, ccap, coam, pumping, cool, {'pumping_cost_dropped': zeros}))
    elif eclass == 'heatpump':
        hp = [x * rate / 1e6 for x in _series(sp['heat_pump_electricity_kwh_used'].value, life)]
        checks.append(('lcoh', e['LCOH'].value, 1e8 * 2.931, ccap, coam, [a + b for a, b in zip(pumping, hp)], heatkwh,
                       {'pumping_cost_dropped': hp}))
    elif eclass == 'district':
        ng_demand = _series(sp['annual_ng_demand'].value, life)
        ngprice, eff = float(e['ngprice'].value), float(e['peakingboilerefficiency'].value)
        fuel = [x * ngprice / 1000.0 / eff for x in ng_demand]
        fuel_noeff = [x * ngprice / 1000.0 for x in ng_demand]
        demand = _series(sp['annual_heating_demand'].value, life)
        checks.append(('lcoh', e['LCOH'].value, 1e2 * 2.931, ccap, coam, [a + b for a, b in zip(pumping, fuel)], demand,
                       {'peaking_fuel_without_boiler_efficiency': [a + b for a, b in zip(pumping, fuel_noeff)],
                        'pumping_cost_dropped': fuel}))
    nontrivial = False
    for clause, reported, unit, cc, co, other, energy, variants in checks:
        if len(energy) != life or len(other) != life:
            bad('series_length', {'clause': clause, 'len_energy': len(energy), 'len_other': len(other), 'lifetime': life})
            continue
        if any(x != x for x in (cc, co, reported)) or any(x != x for x in energy):
            labels.append('nan_quantities_skipped')  # degenerate runs (e.g. 0/0 cost allocation) report NaN; nothing to compare
            continue
        if not all(x > 0 for x in energy):
            labels.append('energy_not_positive_every_year')
            continue
        mean_e = sum(energy) / life
        varies = (max(energy) - min(energy)) > 1e-6 * mean_e
        if varies or life == 1:
            nontrivial = True
        labels.append(f'{clause}:{"varying" if varies else "constant"}')
        try:
            want = reference(model_id, econ, cc, co, other, energy) * unit
        except (ZeroDivisionError, OverflowError):
            labels.append('reference_undefined')
            continue
        if not close(reported, want):
            expl = 'none'
            for name, oth in variants.items():
                try:
                    alt = reference(model_id, econ, cc, co, oth, energy) * unit
                except (ZeroDivisionError, OverflowError):
                    continue
                if close(reported, alt):
                    expl = name
                    break
            bad(clause, {'reported': reported, 'documented_formula': want, 'rel_diff': (reported - want) / want if want else None,
                         'CCap_share': cc, 'Coam_share': co, 'lifetime': life}, explained_by=expl)
    labels += [f'econ:{model_id}', f'enduse:{eclass}', f'plantclass:{pclass}']
    if e['DoAddOnCalculations'].value:
        labels.append('with_addons')
    if life == 1:
        labels.append('lifetime1')
    rec.case(case, nontrivial=nontrivial, labels=labels, key=case['params'],
             sample={'family': case.get('family'), 'params': case['params'],
                     'observed': {'LCOE': e['LCOE'].value, 'LCOH': e['LCOH'].value, 'LCOC': e['LCOC'].value}})
