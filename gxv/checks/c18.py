"""C18 - outputs respond monotonically where the model says they must (ordered metamorphic pairs)."""
import math

import numpy as np
from hypothesis import strategies as st

from .. import gen, sim, snapshot, worker
from ..runner import drive
from . import c05

ID = 'C18'
LEVEL = 'exploration'
BUDGET_S = {'quick': 300, 'thorough': 1500}
RULE = ('ordered pairs x1 < x2 of one varied parameter with everything else fixed: (bht) gradient i or depth on 1..4-segment '
        'layouts (same side of the unit-convention thresholds), reservoir module on the read model; (tdp) drawdown rate '
        'under the percentage-drawdown model, every time step; (flow) flow rate per well with the Ramey model on, full run, plus '
        'ladders of 400 neighbouring flow rates (ratio 1.002..1.03) through the wellbore heat-loss function the run uses, every time step; '
        'initial production temperature; (wellcost) exhaustive 1 m grid 500..7000 m x all 17 correlations through the '
        'correlation itself and through the per-well cost routine, plus run-level depth pairs; (cost) every cost input and '
        'cost adjustment factor (values drawn boundary- and default-biased) on generated full runs: NPV must not increase '
        'and, when that product\'s yearly energy is positive, no levelized cost may decrease. Slack -1e-9 relative. '
        'Non-trivial = x2 - x1 >= 1 % of the declared range and the observed output differs; distinct by pair.')
ASSUMPTIONS = ['well-cost monotonicity only claimed where the correlation applies (500-7000 m); the sub-500 m fallback is a different cost model',
               'reservoir-temperature monotonicity in the drawdown rate presumes heat extraction (BHT above injection temperature)']

COST_PARAMS = [
    ('Reservoir Stimulation Capital Cost', 0, 100, None), ('Exploration Capital Cost', 0, 100, None),
    ('Well Drilling and Completion Capital Cost', 0.1, 100, None), ('Injection Well Drilling and Completion Capital Cost', 0.1, 100, None),
    ('Surface Plant Capital Cost', 0, 500, None), ('Field Gathering System Capital Cost', 0, 100, None),
    ('Wellfield O&M Cost', 0, 30, None), ('Surface Plant O&M Cost', 0, 30, None), ('Water Cost', 0, 10, None),
    ('Total Capital Cost', 1, 800, None), ('Total O&M Cost', 0.05, 60, None),
    ('Reservoir Stimulation Capital Cost Adjustment Factor', 0, 10, 1.0), ('Exploration Capital Cost Adjustment Factor', 0, 10, 1.0),
    ('Well Drilling and Completion Capital Cost Adjustment Factor', 0, 10, 1.0),
    ('Injection Well Drilling and Completion Capital Cost Adjustment Factor', 0, 10, 1.0),
    ('Wellfield O&M Cost Adjustment Factor', 0, 10, 1.0), ('Surface Plant Capital Cost Adjustment Factor', 0, 10, 1.0),
    ('Field Gathering System Capital Cost Adjustment Factor', 0, 10, 1.0), ('Surface Plant O&M Cost Adjustment Factor', 0, 10, 1.0),
    ('Water Cost Adjustment Factor', 0, 10, 1.0), ('One-time Flat License Fees Etc', 0, 50, 0.0), ('Annual License Fees Etc', 0, 5, 0.0),
    ('All-in Vertical Drilling Costs', 0, 10000, 1000.0), ('Surface Piping Length', 0, 100, 0.0),
]


def plan(tier, seed, shards):
    q = tier == 'quick'
    specs = [{'kind': 'wellcost', 'corr': list(range(1 + i, 18, 4))} for i in range(4)]
    for s in range(shards):
        specs.append({'kind': 'bht', 'n': 300 if q else 8000, 'seed': seed * 1000 + s})
        specs.append({'kind': 'tdp', 'n': 120 if q else 3000, 'seed': seed * 1000 + 100 + s})
        specs.append({'kind': 'flow', 'n': 12 if q else 400, 'seed': seed * 1000 + 200 + s})
        specs.append({'kind': 'ramey', 'n': 40 if q else 1500, 'seed': seed * 1000 + 400 + s})
        specs.append({'kind': 'cost', 'n': 50 if q else 1200, 'seed': seed * 1000 + 300 + s, 'tier': tier})
    return specs


def ge(a, b):
    """a >= b up to the stated slack"""
    return a >= b - 1e-9 * max(abs(a), abs(b)) - 1e-12


# ------------------------------------------------------------------ well cost (exhaustive)

def _wellcost(spec, rec):
    worker.init_worker()
    from geophires_x.OptionList import WellDrillingCostCorrelation as WC
    import geophires_x.Economics as E

    m, e = sim.read_only(sim.render(gen.merge(gen.RES4, gen.ELEC(2), gen.ECON['1'])))
    if e:
        raise RuntimeError(f'HARNESS: {e}')
    for c in spec['corr']:
        member = WC.from_input_string(str(c))
        prev_a = prev_b = None
        for d in range(500, 7001):
            a = member.calculate_cost_MUSD(float(d))
            with worker.quiet():
                b = E.calculate_cost_of_one_vertical_well(m, float(d), member, 1000.0, 'Well Drilling and Completion Capital Cost', 1.0)
            case = {'kind': 'wellcost', 'correlation': c, 'depth_m': d}
            rec.case(case, nontrivial=d > 500, key=[c, d], labels=[f'correlation:{c}'] if d == 500 else (),
                     sample=case if d in (501, 7000) else None)
            if prev_a is not None and not ge(a, prev_a):
                rec.violation('well_cost_decreases_with_depth', case, {'cost_at_d': a, 'cost_at_d_minus_1': prev_a}, correlation=str(c), via='correlation')
            if prev_b is not None and not ge(b, prev_b):
                rec.violation('well_cost_decreases_with_depth', case, {'cost_at_d': b, 'cost_at_d_minus_1': prev_b}, correlation=str(c), via='per_well_routine')
            prev_a, prev_b = a, b
    rec.count('wellcost_grid_points', len(spec['corr']) * 6501)


# ------------------------------------------------------------------ BHT pairs

@st.composite
def bht_pairs(draw):
    lay = draw(c05.layouts('quick'))
    lay['model'] = '4'
    vary = draw(st.sampled_from(['depth'] + [f'g{i}' for i in range(lay['numseg'])]))
    if vary == 'depth':
        a, b = sorted([draw(gen.nice_floats(0.1, 15)), draw(gen.nice_floats(0.1, 15))])
    else:
        i = int(vary[1:])
        g = lay['grads'][i]
        if g > 1.0:
            a, b = sorted([draw(gen.nice_floats(1.0001, 500)), draw(gen.nice_floats(1.0001, 500))])
        else:
            a, b = sorted([draw(gen.nice_floats(0.0, 1.0)), draw(gen.nice_floats(0.0, 1.0))])
    return {'kind': 'bht', 'layout': lay, 'vary': vary, 'x1': a, 'x2': b}


def _bht_of(lay):
    m, e = sim.read_only(sim.render(c05._layout_params(lay)))
    if e:
        return None
    try:
        with worker.quiet():
            m.reserv.Calculate(m)
    except BaseException as ex:
        if isinstance(ex, (KeyboardInterrupt, MemoryError)):
            raise
        return None
    return float(m.reserv.Trock.value)


def _eval_bht(c, rec):
    lays = []
    for x in (c['x1'], c['x2']):
        lay = dict(c['layout'])
        lay['grads'] = list(lay['grads'])
        if c['vary'] == 'depth':
            lay['depth'] = x
        else:
            lay['grads'][int(c['vary'][1:])] = x
        lays.append(lay)
    t1, t2 = _bht_of(lays[0]), _bht_of(lays[1])
    if t1 is None or t2 is None:
        rec.case(c, nontrivial=False, labels=['bht_rejected'])
        return
    rng = 14.9 if c['vary'] == 'depth' else (499.0 if c['x1'] > 1 else 1.0)
    nt = (c['x2'] - c['x1']) >= 0.01 * rng and t1 != t2
    rec.case(c, nontrivial=nt, labels=[f'bht:vary_{"depth" if c["vary"] == "depth" else "gradient"}', f'bht:numseg{c["layout"]["numseg"]}'],
             key=c, sample={'vary': c['vary'], 'x1': c['x1'], 'x2': c['x2'], 'BHT1': t1, 'BHT2': t2, 'numseg': c['layout']['numseg']})
    if not ge(t2, t1):
        rec.violation('bht_decreases', c, {'vary': c['vary'], 'x1': c['x1'], 'x2': c['x2'], 'BHT_x1': t1, 'BHT_x2': t2},
                      vary='depth' if c['vary'] == 'depth' else 'gradient', numseg=str(c['layout']['numseg']))


# ------------------------------------------------------------------ drawdown-rate pairs (model 4)

@st.composite
def tdp_pairs(draw):
    a, b = sorted([draw(gen.nice_floats(0.0, 0.2)), draw(gen.nice_floats(0.0, 0.2))])
    base = gen.merge(gen.RES4, gen.ELEC(2), gen.ECON['1'],
                     [['Gradient 1', gen.fmt(draw(gen.nice_floats(30, 90)))], ['Reservoir Depth', gen.fmt(draw(gen.nice_floats(1.5, 6)))],
                      ['Injection Temperature', gen.fmt(draw(gen.nice_floats(20, 80)))],
                      ['Plant Lifetime', str(draw(st.integers(1, 60)))], ['Time steps per year', str(draw(st.integers(1, 12)))]])
    return {'kind': 'tdp', 'params': base, 'x1': a, 'x2': b}


def _tres_of(params):
    m, e = sim.read_only(sim.render(params))
    if e:
        return None, None
    try:
        with worker.quiet():
            m.reserv.Calculate(m)
    except BaseException as ex:
        if isinstance(ex, (KeyboardInterrupt, MemoryError)):
            raise
        return None, None
    return np.asarray(m.reserv.Tresoutput.value, dtype=float), (float(m.reserv.Trock.value), float(m.wellbores.Tinj.value))


def _eval_tdp(c, rec):
    t1, info = _tres_of(gen.set_param(c['params'], 'Drawdown Parameter', gen.fmt(c['x1'])))
    t2, _ = _tres_of(gen.set_param(c['params'], 'Drawdown Parameter', gen.fmt(c['x2'])))
    if t1 is None or t2 is None or not info[0] > info[1]:
        rec.case(c, nontrivial=False, labels=['tdp_rejected_or_not_extracting'])
        return
    nt = (c['x2'] - c['x1']) >= 0.002 and not np.array_equal(t1, t2)
    rec.case(c, nontrivial=nt, labels=['tdp_pair'], key=c, sample={'x1': c['x1'], 'x2': c['x2'], 'n_steps': int(len(t1))})
    if not np.all(t2 <= t1 + 1e-9 * np.abs(t1) + 1e-12):
        k = int(np.argmax(t2 - t1))
        rec.violation('tres_increases_with_drawdown_rate', c, {'index': k, 'Tres_x1': float(t1[k]), 'Tres_x2': float(t2[k])})


# ------------------------------------------------------------------ flow-rate pairs (Ramey on, full run)

@st.composite
def flow_pairs(draw):
    a, b = sorted([draw(gen.nice_floats(5, 150)), draw(gen.nice_floats(5, 150))])
    rb = draw(st.sampled_from(['4', '3']))
    base = gen.merge(gen.RESERVOIRS[rb], gen.ELEC(draw(st.integers(1, 2))), gen.ECON['1'],
                     [['Ramey Production Wellbore Model', '1'], ['Gradient 1', gen.fmt(draw(gen.nice_floats(35, 80)))],
                      ['Reservoir Depth', gen.fmt(draw(gen.nice_floats(2, 5)))],
                      ['Production Well Diameter', gen.fmt(draw(gen.nice_floats(5, 12)))],
                      ['Plant Lifetime', str(draw(st.integers(5, 30)))], ['Time steps per year', str(draw(st.integers(2, 6)))]])
    if rb == '3':
        base = gen.drop_param(gen.drop_param(base, 'Reservoir Impedance'), 'Production Wellbore Temperature Drop')
        base = gen.merge(base, [['Productivity Index', '8'], ['Injectivity Index', '8']])
    return {'kind': 'flow', 'params': base, 'x1': a, 'x2': b}


def _eval_flow(c, rec):
    out = []
    for x in (c['x1'], c['x2']):
        r = sim.run_params(gen.set_param(c['params'], 'Production Flow Rate per Well', gen.fmt(x)), want_report=False)
        if not r.ok:
            rec.case(c, nontrivial=False, labels=['flow_rejected'])
            return
        out.append(float(np.asarray(r.snap['wellbores']['ProducedTemperature'].value, dtype=float)[0]))
    nt = (c['x2'] - c['x1']) >= 1.45 and out[0] != out[1]
    rec.case(c, nontrivial=nt, labels=['flow_pair'], key=c, sample={'x1': c['x1'], 'x2': c['x2'], 'T0_x1': out[0], 'T0_x2': out[1]})
    if not ge(out[1], out[0]):
        rec.violation('initial_production_temperature_decreases_with_flow', c, {'x1': c['x1'], 'x2': c['x2'], 'T0_x1': out[0], 'T0_x2': out[1]})


# ------------------------------------------------------------------ flow-rate ladders on the wellbore heat-loss function itself

@st.composite
def ramey_ladders(draw):
    """the function the full run uses for the production-well temperature drop, over a fine ladder of flow rates (steps of a few
    per mille up to a few per cent): a response that is monotone for widely spaced flows but steps back inside a narrow window
    is only seen by neighbouring flows."""
    return {'kind': 'ramey', 'krock': draw(gen.nice_floats(1.5, 5.0)), 'rhorock': draw(gen.nice_floats(2000, 3500)),
            'cprock': draw(gen.nice_floats(700, 1200)), 'welldiam': draw(gen.nice_floats(0.10, 0.40)),
            'life': draw(st.integers(2, 40)), 'tspy': draw(st.integers(1, 6)), 'util': draw(gen.nice_floats(0.5, 1.0)),
            'cpwater': draw(gen.nice_floats(4000, 4700)), 'Trock': draw(gen.nice_floats(100, 375)),
            'gradient': draw(gen.nice_floats(0.025, 0.1)), 'depth': draw(gen.nice_floats(1000, 7000)),
            'lo': draw(gen.nice_floats(1, 40)), 'ratio': draw(st.sampled_from([1.002, 1.005, 1.01, 1.03])), 'steps': 400}


def _eval_ramey(c, rec):
    worker.init_worker()
    from geophires_x.WellBores import RameyCalc
    n = c['life'] * c['tspy']
    tv = np.linspace(0, c['life'], n + 1)[: max(n, 2)]
    flows, f = [], c['lo']
    while len(flows) < c['steps'] and f <= 500.0:
        flows.append(f)
        f *= c['ratio']
    tres = np.full(len(tv), c['Trock'])
    drops = []
    with np.errstate(all='ignore'):
        for q in flows:
            drops.append(np.asarray(RameyCalc(c['krock'], c['rhorock'], c['cprock'], c['welldiam'], tv, c['util'], q, c['cpwater'], c['Trock'],
                                              tres, c['gradient'], c['depth']), dtype=float))
    d = np.vstack(drops)  # [flow, time]
    ok_cols = np.all(np.isfinite(d), axis=0)
    rec.case(c, nontrivial=bool(ok_cols.any()) and len(flows) >= 50, labels=['ramey_flow_ladder'], key=c,
             sample={'flows': [flows[0], flows[-1]], 'steps': len(flows), 'drop_first_last': [float(d[0, 0]), float(d[-1, 0])]})
    if not ok_cols.any():
        return
    dd = d[:, ok_cols]
    rise = dd[1:] - dd[:-1]  # production temperature = reservoir temperature - drop: the drop must not grow with flow
    tol = 1e-9 * np.maximum(1.0, np.abs(dd[:-1]))
    badm = rise > tol
    if badm.any():
        i, j = np.argwhere(badm)[0]
        rec.violation('initial_production_temperature_decreases_with_flow', c,
                      {'flow_1': flows[i], 'flow_2': flows[i + 1], 'temperature_drop_1': float(dd[i, j]), 'temperature_drop_2': float(dd[i + 1, j]),
                       'time_index': int(j), 'level': 'wellbore heat-loss function'})


# ------------------------------------------------------------------ cost pairs (full runs)

@st.composite
def cost_pairs(draw, tier):
    base = draw(gen.configs(reservoirs=('4', '3'), addons=0.0, costs=True, prices=True, examples=0.1))
    name, lo, hi, default = draw(st.sampled_from(COST_PARAMS + [p for p in COST_PARAMS if p[0].startswith('Injection Well')] * 2))

    def val():
        opts = [gen.nice_floats(lo, hi), gen.nice_floats(lo, lo + (hi - lo) * 0.1)]
        if default is not None:
            opts.append(st.just(float(default)))
            opts.append(gen.nice_floats(max(lo, default * 0.8), min(hi, default * 1.3 + 0.01)))
        return draw(st.one_of(*opts))
    a, b = sorted([val(), val()])
    params = base['params']
    if name == 'All-in Vertical Drilling Costs':
        params = gen.merge(params, [['Well Drilling Cost Correlation', '5']])
        params = [p for p in params if p[0] not in ('Well Drilling and Completion Capital Cost', 'Injection Well Drilling and Completion Capital Cost')]
    if name.endswith('Adjustment Factor'):
        # an adjustment factor only acts on a correlated cost: drop the fixed figure and the totals that would mask it
        fixed = name.replace(' Adjustment Factor', '')
        params = [p for p in params if p[0] not in (fixed, 'Total Capital Cost', 'Total O&M Cost')]
    elif name not in ('Total Capital Cost', 'Total O&M Cost'):
        params = [p for p in params if p[0] not in ('Total Capital Cost', 'Total O&M Cost')]
    if name == 'Injection Well Drilling and Completion Capital Cost Adjustment Factor' and draw(st.integers(0, 3)) != 0:
        # the injection factor is coupled to the production factor when it is 'not provided': exercise the coupling
        params = gen.merge(params, [['Well Drilling and Completion Capital Cost Adjustment Factor',
                                     gen.fmt(draw(st.one_of(gen.nice_floats(0.1, 10), st.sampled_from([0.5, 2.0, 2.5]))))]])
    if name == 'Injection Well Drilling and Completion Capital Cost':
        params = gen.merge(params, [['Well Drilling and Completion Capital Cost', gen.fmt(draw(gen.nice_floats(1, 40)))]])
    return {'kind': 'cost', 'family': base['family'], 'params': params, 'name': name, 'x1': a, 'x2': b, 'span': hi - lo}


def _eval_cost(c, rec):
    snaps = []
    for x in (c['x1'], c['x2']):
        r = sim.run_params(gen.set_param(c['params'], c['name'], gen.fmt(x)), want_report=False)
        if not r.ok or r.snap['misc']['economics_class'] != 'Economics':
            rec.case(c, nontrivial=False, labels=['cost_rejected'])
            return
        snaps.append(r.snap)
    e1, e2 = snaps[0]['economics'], snaps[1]['economics']
    sp = snaps[0]['surfaceplant']
    he = np.asarray(sp['HeatExtracted'].value, dtype=float)
    if not (he.size and (he > 0).all()):
        # a 'plant' that extracts no heat gets negative correlated costs (cost ~ max heat extracted): not a costed plant
        rec.case(c, nontrivial=False, labels=['cost_degenerate_no_heat_extracted'])
        return
    sig = dict(param=c['name'], econ=str(snapshot.enum_int(e1['econmodel'].value)),
               enduse=str(snapshot.enum_int(sp['enduse_option'].value)))

    def bad(clause, detail, **extra):
        rec.violation(clause, c, detail, **sig, **extra)

    def fin(x):
        return isinstance(x, (int, float)) and x == x and abs(x) != float('inf')

    npv1, npv2 = float(e1['ProjectNPV'].value), float(e2['ProjectNPV'].value)
    differs = False
    if fin(npv1) and fin(npv2):
        differs = npv1 != npv2
        if not ge(npv1, npv2):
            bad('npv_increases_with_cost', {'x1': c['x1'], 'x2': c['x2'], 'npv_x1': npv1, 'npv_x2': npv2})

    def positive(series):
        v = series.value
        return hasattr(v, '__len__') and len(v) > 0 and all(float(x) > 0 for x in v)

    energy_ok = {'LCOE': positive(sp['NetkWhProduced']), 'LCOH': positive(sp['HeatkWhProduced']),
                 'LCOC': 'cooling_kWh_Produced' in sp and positive(sp['cooling_kWh_Produced'])}
    for n in ('LCOE', 'LCOH', 'LCOC'):
        a, b = float(e1[n].value), float(e2[n].value)
        if not (fin(a) and fin(b)) or not energy_ok[n] or (a == 0 and b == 0):
            continue
        differs = differs or a != b
        if not ge(b, a):
            bad('levelized_cost_decreases_with_cost', {'which': n, 'x1': c['x1'], 'x2': c['x2'], 'x1_run': a, 'x2_run': b,
                                                       'bicycle_capital_multiplier': _bicycle_capital_multiplier(e1, sp)},
                which=n, explained_by=_explain_cost_decrease(e1, sp))
    nt = (c['x2'] - c['x1']) >= 0.01 * c['span'] and differs
    rec.case(c, nontrivial=nt, labels=['cost_pair', 'cost:' + ('adjustment_factor' if c['name'].endswith('Factor') else 'input'),
                                       'cost_output_differs' if differs else 'cost_output_same'],
             key=[c['params'], c['name'], c['x1'], c['x2']],
             sample={'family': c['family'], 'name': c['name'], 'x1': c['x1'], 'x2': c['x2'], 'npv': [npv1, npv2]})


def _bicycle_capital_multiplier(e, sp):
    """d(numerator of the documented BICYCLE levelized cost)/d(capital cost), from the run's own rates: capital recovery +
    property tax + income-tax term - investment tax credit grossed up by 1/(1 - income tax rate)"""
    try:
        if snapshot.enum_int(e['econmodel'].value) != 3:
            return None
        life = int(sp['plant_lifetime'].value)
        fib, bir, ctr, eir = (float(e[k].value) for k in ('FIB', 'BIR', 'CTR', 'EIR'))
        rinfl, ptr, ritc, ic = (float(e[k].value) for k in ('RINFL', 'PTR', 'RITC', 'inflrateconstruction'))
        iave = fib * bir * (1 - ctr) + (1 - fib) * eir
        crf = iave / (1 - (1 + iave) ** (-life))
        m = 0.0
        for t in range(1, life + 1):
            disc = 1.0 / (1 + iave) ** t
            m += (1 + ic) * crf * disc + (1 + ic) * ptr * (1 + rinfl) ** t * disc + ctr / (1 - ctr) * ((1 + ic) * crf - 1.0 / life) * disc
        return m - (1 + ic) * ritc / (1 - ctr)
    except (KeyError, ValueError, ZeroDivisionError, OverflowError, TypeError):
        return None


def _explain_cost_decrease(e, sp):
    m = _bicycle_capital_multiplier(e, sp)
    return 'bicycle_capital_multiplier_not_positive' if m is not None and m <= 1e-12 else 'none'


EVALS = {'bht': (bht_pairs, _eval_bht), 'tdp': (tdp_pairs, _eval_tdp), 'flow': (flow_pairs, _eval_flow), 'ramey': (ramey_ladders, _eval_ramey)}


def run_shard(spec, rec):
    k = spec['kind']
    if k == 'wellcost':
        _wellcost(spec, rec)
        return
    if k == 'cost':
        strat, ev = cost_pairs(spec['tier']), _eval_cost
    else:
        strat, ev = EVALS[k][0](), EVALS[k][1]

    def fn(c):
        if rec.out_of_time():
            return
        ev(c, rec)
    drive(strat, fn, spec['n'], spec['seed'])


def evaluate(case, rec):
    k = case.get('kind')
    if k == 'wellcost':
        _wellcost({'corr': [case['correlation']]}, rec)
    elif k == 'cost':
        _eval_cost(case, rec)
    else:
        EVALS[k][1](case, rec)


NO_SHRINK = True
