"""C19 - the published parameter schema matches what the simulator accepts; committed schema files equal the generated
ones; every result-schema field can be extracted by the client."""
import json
import os
import re
import sys

from hypothesis import strategies as st

from .. import gen, sim, meta, worker, SRC_DIR
from ..runner import drive
from . import c07

ID = 'C19'
LEVEL = 'exploration'
EXHAUSTIVE = True
BUDGET_S = {'quick': 300, 'thorough': 900}
RULE = ('finite enumeration: the request / result / HIP-RA-X schemas are generated in the build script\'s order in one process and '
        'compared with the committed files; the union of the live ParameterDicts of every configuration family (reservoir models '
        '0-8, plant types 1-9, AGS, add-ons, S-DAC-GT, SBT, SUTRA; incl. the output-control objects) is compared with the schema\'s '
        'names in both directions; for every name defined identically wherever it occurs the schema type / default / unit / bounds '
        'are compared with the live declaration exactly, and the schema\'s own minimum and maximum are fed to the reader (must be '
        'accepted and stored; one ulp outside must be rejected). Hypothesis adds, for every field of every category of the result '
        'schema, synthetic report lines in the writer\'s format with generated numbers / units that the client must extract '
        'unchanged. distinct non-trivial = distinct (clause, parameter or field).')
ASSUMPTIONS = ['"accepted" = present in a ParameterDict of an object the model holds for some configuration family after read_parameters',
               'behavioural probes run on a family base that contains the parameter (same probes as C07, numbers taken from the schema)']

SCHEMA_DIR = os.path.join(SRC_DIR, 'geophires_x_schema_generator')


def families():
    f = dict(c07.families())
    for p in range(1, 10):
        eu = '1' if p <= 4 else '2'
        base = gen.merge(gen.RES4, [['End-Use Option', eu], ['Power Plant Type', str(p)]], gen.ECON['1'])
        if p == 7:
            base = gen.merge(gen.RES4, gen.DISTRICT, gen.ECON['1'])
        if p == 8:
            continue
        f[f'plant{p}'] = base
    for m in ('0', '1', '2', '3', '4'):
        f[f'resmodel{m}'] = gen.merge(gen.RESERVOIRS[m], gen.ELEC(1), gen.ECON['2'])
    return f


def plan(tier, seed, shards):
    specs = [{'kind': 'schema'}]
    n = 400 if tier == 'quick' else 6000
    for s in range(min(shards, 8)):
        specs.append({'kind': 'fields', 'n': n, 'seed': seed * 1000 + s})
    return specs


def _num(x):
    try:
        return float(x)
    except (TypeError, ValueError):
        return None


def _schema_shard(rec):
    worker.init_worker()
    with worker.quiet():
        from geophires_x_schema_generator import GeophiresXSchemaGenerator, HipRaXSchemaGenerator
        stash_cwd, stash_argv = os.getcwd(), sys.argv
        try:
            req, res = GeophiresXSchemaGenerator().generate_json_schema()
            hreq, _ = HipRaXSchemaGenerator().generate_json_schema()
        finally:
            sys.argv = stash_argv
            os.chdir(stash_cwd)

    def case_of(clause, name):
        return {'kind': 'schema', 'clause': clause, 'name': name}

    def one(clause, name, nontrivial=True):
        rec.case(case_of(clause, name), nontrivial=nontrivial, key=[clause, name], labels=['clause:' + clause],
                 sample=case_of(clause, name) if name and hash(name) % 40 == 0 else None)

    # (iii) committed == generated (round-tripped through JSON as the build script writes it)
    for fname, gen_schema in (('geophires-request.json', req), ('geophires-result.json', res), ('hip-ra-x-request.json', hreq)):
        with open(os.path.join(SCHEMA_DIR, fname)) as f:
            committed = json.load(f)
        generated = json.loads(json.dumps(gen_schema))
        one('committed_equals_generated', fname)
        if committed != generated:
            ck, gk = committed.get('properties', {}), generated.get('properties', {})
            diff = {'only_committed': sorted(set(ck) - set(gk))[:6], 'only_generated': sorted(set(gk) - set(ck))[:6],
                    'changed': [k for k in ck if k in gk and ck[k] != gk[k]][:6], 'n_committed': len(ck), 'n_generated': len(gk)}
            rec.violation('generated_differs_from_committed', case_of('committed_equals_generated', fname), diff, file=fname)
    # (i) names
    live = {}   # name -> list of rows
    fam_of = {}
    fam_base = {}
    for fam, base in families().items():
        m, e = sim.read_only(sim.render(base))
        if e:
            rec.label('family_not_readable:' + fam)
            continue
        fam_base[fam] = base
        for r in meta.param_rows(m):
            r['_fam'] = fam
            live.setdefault(r['name'], []).append(r)
            fam_of.setdefault(r['name'], (fam, base))
    props = req['properties']
    for name in sorted(set(live) | set(props)):
        one('name_listed', name)
        if name not in props:
            rec.violation('accepted_parameter_missing_from_schema', case_of('name_listed', name),
                          {'accepted_by': sorted(set(r['cls'] for r in live[name]))}, name=name)
        elif name not in live:
            rec.violation('schema_parameter_not_accepted', case_of('name_listed', name), {'schema': props[name]}, name=name)
    # HIP-RA-X names
    hm, he = c07._hip_model(sim.render(c07.HIP_BASE))
    if hm is not None:
        hnames = set(p.Name.strip() for p in hm.ParameterDict.values())
        for name in sorted(hnames | set(hreq['properties'])):
            one('hip_name_listed', name)
            if name not in hreq['properties']:
                rec.violation('accepted_parameter_missing_from_schema', case_of('hip_name_listed', name), {'schema': 'hip-ra-x'}, name=name, schema='hip')
            elif name not in hnames:
                rec.violation('schema_parameter_not_accepted', case_of('hip_name_listed', name), {'schema': 'hip-ra-x'}, name=name, schema='hip')
    # (ii) declarations and behaviour
    for name, rows in sorted(live.items()):
        if name not in props:
            continue
        sigs = {(r['kind'], repr(r['min']), repr(r['max']), repr(r['default']), r['pu'], tuple(r['allowable'][:3]), len(r['allowable'])) for r in rows}
        if len(sigs) != 1:
            rec.count('names_defined_differently_across_modules')
            continue
        r = rows[0]
        sp = props[name]
        one('declaration', name)
        want_type = {'floatParameter': 'number', 'intParameter': 'integer', 'boolParameter': 'boolean', 'strParameter': 'string',
                     'listParameter': 'array'}.get(r['kind'])
        if want_type and sp.get('type') != want_type:
            rec.violation('schema_type', case_of('declaration', name), {'schema': sp.get('type'), 'live_kind': r['kind']}, name=name)
        # unit: the one a bare number is read in = the declared current unit, seen on every family whose base text leaves the
        # parameter alone (reading a value may re-express it, e.g. depth in metres)
        untouched = [x for x in rows if not any(a == name for a, _ in fam_base[x['_fam']])] if '_fam' in rows[0] else []
        cus = {x['cu'] for x in untouched}
        if r['kind'] in ('floatParameter', 'intParameter') and len(cus) == 1:
            live_u = cus.pop()
            live_u = None if live_u in ('None', None) else live_u
            if sp.get('units') != live_u:
                rec.violation('schema_unit', case_of('declaration', name), {'schema': sp.get('units'), 'read_in': live_u}, name=name)
        if r['kind'] == 'floatParameter':
            for side, live_v in (('minimum', r['min']), ('maximum', r['max'])):
                sv = _num(sp.get(side))
                if sv is None or float(live_v) != sv:
                    rec.violation('schema_bound', case_of('declaration', name), {'side': side, 'schema': sp.get(side), 'enforced': live_v}, name=name, side=side)
            d_s, d_l = _num(sp.get('default')), _num(r['default'])
            # defaults pass through the generator's documented float-noise fix (7.000000000000001 -> '7.0'): compare at 1e-9
            if d_l is not None and (d_s is None or abs(d_s - d_l) > 1e-9 * max(1.0, abs(d_l))):
                rec.violation('schema_default', case_of('declaration', name), {'schema': sp.get('default'), 'live': r['default']}, name=name)
        elif r['kind'] == 'intParameter' and r['allowable']:
            if _num(sp.get('minimum')) != min(r['allowable']) or _num(sp.get('maximum')) != max(r['allowable']):
                rec.violation('schema_bound', case_of('declaration', name), {'schema': [sp.get('minimum'), sp.get('maximum')],
                                                                             'enforced': [min(r['allowable']), max(r['allowable'])]}, name=name, side='int')
        # behaviour at the schema's own numbers
        if r['kind'] == 'floatParameter':
            fam, base = fam_of[name]
            byname = {name: rows}
            for side in ('minimum', 'maximum'):
                sv = _num(sp.get(side))
                if sv is None or abs(sv) >= 1e30 or c07._close(sv, r['default']) or c07._close(sv, r['value']):
                    continue
                one('behaviour_at_schema_' + side, name)
                text = sim.render(gen.set_param(base, name, gen.fmt(sv)))
                ok, detail = c07._accepted_and_used(text, name, sv)
                if not ok and 'rejected' in (detail or {}) and name in (detail['rejected'].get('msg') or ''):
                    rec.violation('schema_bound_rejected_by_reader', case_of('behaviour', name), {'side': side, 'schema_value': sp.get(side), 'error': detail['rejected']},
                                  name=name, side=side)
                import math
                outside = math.nextafter(sv, -math.inf if side == 'minimum' else math.inf)
                m2, e2 = sim.read_only(sim.render(gen.set_param(base, name, gen.fmt(outside))))
                if e2 is None:
                    rec.violation('value_outside_schema_bound_accepted', case_of('behaviour', name), {'side': side, 'schema_value': sp.get(side), 'tried': outside},
                                  name=name, side=side)
    rec.count('live_parameter_names', len(live))
    rec.count('schema_parameter_names', len(props))
    return res


# ------------------------------------------------------------------ (iv) result-schema fields extractable

def _result_fields():
    worker.init_worker()
    with worker.quiet():
        from geophires_x_schema_generator import GeophiresXSchemaGenerator
        from geophires_x_client.geophires_x_result import GeophiresXResult, _StringValueField, _EqualSignDelimitedField
        stash_cwd, stash_argv = os.getcwd(), sys.argv
        try:
            _, res = GeophiresXSchemaGenerator().generate_json_schema()
        finally:
            sys.argv = stash_argv
            os.chdir(stash_cwd)
    kinds = {}
    for cat, fields in GeophiresXResult._RESULT_FIELDS_BY_CATEGORY.items():
        for f in fields:
            if isinstance(f, _StringValueField):
                kinds[(cat, f.field_name)] = 'string'
            elif isinstance(f, _EqualSignDelimitedField):
                kinds[(cat, f.field_name)] = 'equal'
            else:
                kinds[(cat, f)] = 'number'
    out = []
    for cat, spec in res['properties'].items():
        for field in spec.get('properties', {}):
            out.append((cat, field, kinds.get((cat, field), 'unlisted')))
    return out


def _fields_shard(spec, rec):
    fields = _result_fields()
    from geophires_x_client.geophires_x_result import GeophiresXResult
    d = worker.scratch_dir()
    path = os.path.join(d, f'c19-{os.getpid()}.out')

    nums = st.one_of(st.integers(-10 ** 6, 10 ** 9).map(str),
                     st.floats(-1e7, 1e9, allow_nan=False).map(lambda x: f'{x:.2f}'),
                     st.floats(0, 1e6).map(lambda x: f'{x:,.2f}'),
                     st.floats(1e-6, 1e15).map(lambda x: f'{x:.2e}'),
                     st.sampled_from(['0', '-0.00', '1e+15', '12,345,678.90', '3.0']))
    units = st.sampled_from(['MW', 'USD/MMBTU', 'cents/kWh', 'degC', 'kg/sec', '%', 'MUSD', 'MUSD/yr', 'kilometer', 'GWh/year', ''])

    @st.composite
    def cases(draw):
        cat, field, kind = draw(st.sampled_from(fields))
        # report style: the standard writer prints a '***CATEGORY***' banner; the closed-loop (CLGS) style report prints the same
        # labels under no category banner at all
        return {'kind': 'field', 'category': cat, 'field': field, 'fkind': kind, 'num': draw(nums), 'unit': draw(units),
                'pad': draw(st.integers(1, 30)), 'banner': draw(st.sampled_from(['own', 'own', 'none', 'clgs']))}

    def fn(c):
        if rec.out_of_time():
            return
        _eval_field(c, rec, path, GeophiresXResult)
    drive(cases(), fn, spec['n'], spec['seed'])


def _expected_number(tok):
    t = tok.replace(',', '')
    if '.' in t:
        return float(t)
    try:
        return int(t)
    except ValueError:
        return None  # e.g. '1e+15' without a dot is not parseable by the documented rule: counted, not asserted


def _eval_field(c, rec, path, GeophiresXResult):
    cat, field, kind = c['category'], c['field'], c['fkind']
    indent = ' ' if cat == 'Simulation Metadata' else '      '
    if kind == 'equal':
        line = f'{indent} {field} = some text value'
    elif kind == 'string':
        line = f'{indent}{field}: Some Text Value'
    else:
        line = f'{indent}{field}:{" " * c["pad"]}{c["num"]}' + (f' {c["unit"]}' if c['unit'] else '')
    banner = c.get('banner', 'own')
    head = {'own': f'                           ***{cat}***\n\n', 'none': '\n',
            'clgs': '                               *****************\n                               ***CASE REPORT***\n'
                    '                               *****************\n\n                           ***AGS/CLGS STYLE OUTPUT***\n\n'}[banner]
    text = f'{head}{line}\n\n'
    with open(path, 'w') as f:
        f.write(text)
    with worker.quiet():
        r = GeophiresXResult(path).result
    got = r.get(cat, {}).get(field)
    rec.case(c, nontrivial=True, key=[cat, field, banner], labels=['field_kind:' + kind, 'banner:' + banner], sample=c if hash((cat, field)) % 60 == 0 else None)
    if kind == 'equal':
        if got != 'some text value':
            rec.violation('result_field_not_extractable', c, {'line': line, 'client': got}, category=cat, field=field)
        return
    if kind == 'string':
        if not isinstance(got, dict) or got.get('value') != 'Some Text Value':
            rec.violation('result_field_not_extractable', c, {'line': line, 'client': got}, category=cat, field=field)
        return
    if kind == 'unlisted':
        rec.violation('result_schema_field_unknown_to_client', c, {'category': cat, 'field': field}, category=cat, field=field)
        return
    want = _expected_number(c['num'])
    if want is None:
        rec.label('number_format_outside_documented_rule')
        return
    want_unit = c['unit'] or ('count' if field.startswith('Number') else None)
    if not isinstance(got, dict) or got.get('value') != want or got.get('unit') != want_unit:
        rec.violation('result_field_not_extractable', c, {'line': line, 'client': got, 'expected': {'value': want, 'unit': want_unit}},
                      category=cat, field=field)


def run_shard(spec, rec):
    if spec['kind'] == 'schema':
        _schema_shard(rec)
    else:
        _fields_shard(spec, rec)


def evaluate(case, rec):
    if case.get('kind') == 'field':
        worker.init_worker()
        from geophires_x_client.geophires_x_result import GeophiresXResult
        _eval_field(case, rec, os.path.join(worker.scratch_dir(), 'c19-replay.out'), GeophiresXResult)
    else:
        _schema_shard(rec)


NO_SHRINK = True
