"""C15 - pumping power never negative, total = production + injection where both are modelled; overpressured
reservoir pressure starts at pct x hydrostatic, declines monotonically at the stated rate, never below hydrostatic;
injection-reservoir pressure rises at its stated rate; well friction does not increase with diameter."""
import math

import numpy as np
from hypothesis import strategies as st

from .. import gen, sim, snapshot, worker
from ..runner import drive

ID = 'C15'
LEVEL = 'exploration'
BUDGET_S = {'quick': 300, 'thorough': 1500}
RULE = ('(A) function level: the two reservoir-pressure predictors over an integer grid (lifetime x steps/yr) x Hypothesis '
        'floats (overpressure 100..400 %, depletion / inflation rates > 0) against the closed form with the documented '
        'integer-step rounding; the well friction routine over (temperature profile, flow, depth, ordered diameter pair on '
        'the same side of the inch threshold) on a read model. (B) run level: configs() under both hydraulic models '
        '(impedance given / PI-II), pumped and flash plants, overpressure with depletion and injection-reservoir '
        'parameters: per-step PumpingPower >= 0, PumpingPower = Prod + Inj (both >= 0) under PI/II with production '
        'pumping, pressure-series shape. Non-trivial = pumping power > 0 somewhere, or an overpressure case (reaching / '
        'not reaching hydrostatic inside the lifetime are both labelled), or a diameter pair with different friction.')
ASSUMPTIONS = ['overpressure combined with neither injection depth nor inflation rate crashes the simulator: rejected input',
               'stated depletion rate tolerance: relative 1/floor(100*tspy/rate) (documented integer-step rounding)']


def plan(tier, seed, shards):
    q = tier == 'quick'
    specs = []
    for s in range(shards):
        specs.append({'kind': 'pred', 'n': 2500 if q else 60000, 'seed': seed * 1000 + s})
        specs.append({'kind': 'friction', 'n': 250 if q else 8000, 'seed': seed * 1000 + 100 + s})
        specs.append({'kind': 'run', 'n': 70 if q else 2500, 'seed': seed * 1000 + 200 + s, 'tier': tier})
    return specs


def _fns():
    worker.init_worker()
    import geophires_x.WellBores as W
    return W


# ------------------------------------------------------------------ (A1) predictors

@st.composite
def pred_args(draw):
    life = draw(st.one_of(st.integers(1, 40), st.integers(1, 100)))
    tspy = draw(st.one_of(st.integers(1, 12), st.integers(1, 100)))
    p0 = draw(gen.nice_floats(1000, 100000))
    pct = draw(st.one_of(gen.nice_floats(100, 400), st.just(100.0), gen.nice_floats(100, 110)))
    rate = draw(st.one_of(gen.nice_floats(0.5, 60), gen.nice_floats(0.01, 100), st.sampled_from([1.0, 8.0, 10.0, 12.5, 40.0, 33.0])))
    infl = draw(st.one_of(gen.nice_floats(0, 2000), st.just(0.0)))
    return (life, tspy, p0, pct, rate, infl)


def check_depletion_series(series, p0, pct, rate, tspy, n_expected, bad, where):
    """shape of a production-reservoir pressure series; p0 may be None (then derived from the start)"""
    p = np.asarray(series, dtype=float)
    info = {}
    if len(p) != n_expected:
        bad('pressure_series_length', {'len': len(p), 'expected': n_expected}, where=where)
        return info
    hyd = p0 if p0 is not None else p[0] / (pct / 100.0)
    if not math.isclose(p[0], hyd * pct / 100.0, rel_tol=1e-9, abs_tol=1e-9):
        bad('overpressure_start', {'P0': float(p[0]), 'expected': hyd * pct / 100.0}, where=where)
    d = np.diff(p)
    if (d > 1e-9 * max(abs(p[0]), 1)).any():
        k = int(np.argmax(d))
        bad('pressure_rises', {'index': k, 'P_k': float(p[k]), 'P_k1': float(p[k + 1])}, where=where)
    if (p < hyd * (1 - 1e-9) - 1e-9).any():
        bad('pressure_below_hydrostatic', {'min': float(p.min()), 'hydrostatic': hyd}, where=where)
    if pct > 100.0 and len(p) > 1:
        delta = p[0] - hyd
        x = 100.0 * tspy / rate
        stated = delta / x  # decline per step at exactly the stated rate
        # the period is a whole number of steps; x evaluated in another order may sit one ulp below an integer
        n_min = math.floor(x * (1 - 1e-12))
        tol = 1.0 / n_min if n_min >= 1 else None
        declining = [k for k in range(len(d)) if p[k + 1] > hyd * (1 + 1e-12) + 1e-9]
        info['reaches_hydrostatic'] = bool((np.isclose(p, hyd, rtol=1e-12, atol=1e-9)).any())
        if declining and tol is not None:
            steps = -d[declining]
            cancel = 16 * np.finfo(float).eps * float(np.abs(p).max())  # differences of ~|p|-sized numbers
            if not np.allclose(steps, steps[0], rtol=1e-6, atol=1e-9 * max(delta, 1) + cancel):
                bad('decline_not_constant', {'steps_first': [float(s) for s in steps[:4]]}, where=where)
            elif not abs(steps[0] - stated) <= stated * (tol + 1e-9) + cancel:
                bad('decline_rate_not_as_stated', {'per_step': float(steps[0]), 'stated_per_step': stated, 'rel_tol': tol,
                                                   'rate_pct_per_yr': rate, 'tspy': tspy}, where=where)
        # flat after reaching hydrostatic
        hit = np.where(np.isclose(p, hyd, rtol=1e-12, atol=1e-9))[0]
        if len(hit) and not np.allclose(p[hit[0]:], hyd, rtol=1e-12, atol=1e-9):
            bad('not_flat_after_hydrostatic', {'first_hit': int(hit[0])}, where=where)
    return info


def _eval_pred(args, rec):
    life, tspy, p0, pct, rate, infl = args
    W = _fns()
    case = {'kind': 'pred', 'args': list(args)}

    def bad(clause, detail, **extra):
        rec.violation(clause, case, detail, **extra)

    n = life * tspy
    labels = []
    x = 100.0 * tspy / rate
    if pct > 100 and x < 1:
        rec.case(case, nontrivial=False, labels=['rejected_rate_faster_than_one_step'])
        return
    try:
        series = W.ReservoirPressurePredictor(life, tspy, p0, pct, rate)
        inj = W.InjectionReservoirPressurePredictor(life, tspy, p0, infl)
    except Exception as e:
        rec.case(case, nontrivial=True, key=case['args'])
        bad('predictor_raises', {'error': f'{type(e).__name__}: {e}'}, where='function')
        return
    info = check_depletion_series(series, p0, pct, rate, tspy, n, bad, 'function')
    pj = np.asarray(inj, dtype=float)
    if len(pj) != n:
        bad('pressure_series_length', {'len': len(pj), 'expected': n}, where='function_injection')
    else:
        want = p0 + (infl / tspy) * np.arange(n)
        if not np.allclose(pj, want, rtol=1e-12, atol=1e-9):
            k = int(np.argmax(np.abs(pj - want)))
            bad('injection_pressure_rate', {'index': k, 'got': float(pj[k]), 'expected': float(want[k])}, where='function')
    if pct > 100:
        labels.append('reaches_hydrostatic' if info.get('reaches_hydrostatic') else 'stays_overpressured')
        if abs(x - round(x)) > 1e-9:
            labels.append('rate_not_dividing_evenly')
        if abs(100.0 / rate - round(100.0 / rate)) > 1e-9:
            labels.append('depletion_period_not_whole_years')
    rec.case(case, nontrivial=pct > 100 and n > 1, labels=labels, key=case['args'])


# ------------------------------------------------------------------ (A2) friction vs diameter

_MODEL = {}


def _model():
    if 'm' not in _MODEL:
        m, e = sim.read_only(sim.render(gen.merge(gen.RES3, gen.ELEC(2), gen.ECON['1'])))
        if e:
            raise RuntimeError(f'HARNESS: cannot build base model {e}')
        with worker.quiet():
            m.reserv.Calculate(m)
        _MODEL['m'] = m
    return _MODEL['m']


@st.composite
def friction_args(draw):
    n = draw(st.integers(1, 6))
    temps = [draw(gen.nice_floats(30, 300)) for _ in range(n)]
    # the declared ranges: flow per well 1..500 kg/s, casing diameter 1..30 inch
    flow = draw(st.one_of(gen.nice_floats(1, 200), gen.nice_floats(1, 500)))
    depth = draw(gen.nice_floats(100, 10000))
    dmax = 30 * 0.0254
    d1 = draw(st.one_of(gen.nice_floats(0.05, 0.6), gen.nice_floats(0.0254, dmax)))
    d2 = draw(st.one_of(gen.nice_floats(d1, min(dmax, d1 * 1.5)), gen.nice_floats(d1, dmax)))
    return (temps, flow, depth, d1, d2)


def _eval_friction(args, rec):
    temps, flow, depth, d1, d2 = args
    W = _fns()
    m = _model()
    case = {'kind': 'friction', 'args': [temps, flow, depth, d1, d2]}
    if not (0.0254 <= d1 <= d2 <= 30 * 0.0254 * (1 + 1e-12) and 1 <= flow <= 500):
        rec.case(case, nontrivial=False, labels=['friction_args_outside_declared_ranges'])
        return
    try:
        with worker.quiet():
            dp1 = np.asarray(W.WellPressureDrop(m, np.asarray(temps), flow, d1, True, depth)[0], dtype=float)
            dp2 = np.asarray(W.WellPressureDrop(m, np.asarray(temps), flow, d2, True, depth)[0], dtype=float)
            m.wellbores.ProducedTemperature.value = np.asarray(temps)
            ip1 = np.asarray(W.InjectionWellPressureDrop(m, temps[0], flow, d1, True, depth, 2, 2, 0.02)[0], dtype=float)
            ip2 = np.asarray(W.InjectionWellPressureDrop(m, temps[0], flow, d2, True, depth, 2, 2, 0.02)[0], dtype=float)
    except Exception as e:
        rec.case(case, nontrivial=False, labels=['friction_rejected:' + type(e).__name__])
        return
    differs = d2 > d1 and not np.allclose(dp1, dp2)
    rec.case(case, nontrivial=differs, labels=['friction_pair'], key=case['args'])
    for name, a, b in (('production', dp1, dp2), ('injection', ip1, ip2)):
        if (b > a * (1 + 1e-9) + 1e-12).any():
            k = int(np.argmax(b - a))
            rec.violation('friction_increases_with_diameter', case,
                          {'well': name, 'd_small': d1, 'd_large': d2, 'dp_small': float(a[k]), 'dp_large': float(b[k])}, well=name)
        if (a < 0).any() or (b < 0).any():
            rec.violation('friction_negative', case, {'well': name}, well=name)


# ------------------------------------------------------------------ (B) run level

@st.composite
def run_cases(draw, tier):
    base = draw(gen.configs(reservoirs=('4', '3'), addons=0.0, costs=False, prices=False, examples=0.15))
    params = base['params']
    labels = list(base.get('labels', []))
    mode = draw(st.sampled_from(['impedance', 'index', 'index', 'asis']))
    if mode == 'impedance':
        params = gen.drop_param(gen.drop_param(params, 'Productivity Index'), 'Injectivity Index')
        params = gen.merge(params, [['Reservoir Impedance', gen.fmt(draw(gen.nice_floats(0.001, 1.0)))]])
    elif mode == 'index':
        params = gen.drop_param(params, 'Reservoir Impedance')
        params = gen.merge(params, [['Productivity Index', gen.fmt(draw(gen.nice_floats(0.5, 50)))],
                                    ['Injectivity Index', gen.fmt(draw(gen.nice_floats(0.5, 50)))]])
    if draw(st.booleans()):
        params = gen.merge(params, [['Production Well Diameter', gen.fmt(draw(st.one_of(gen.nice_floats(4, 20), gen.nice_floats(1, 2))))],
                                    ['Injection Well Diameter', gen.fmt(draw(st.one_of(gen.nice_floats(4, 20), gen.nice_floats(1, 2))))]])
    if mode != 'impedance' and draw(st.integers(0, 1)) == 0:
        # (overpressure under the impedance model makes the report writer fail: rejected input, not generated)
        params = gen.drop_param(params, 'Reservoir Impedance')
        params = gen.merge(params, [['Productivity Index', dict(params).get('Productivity Index', '5')],
                                    ['Injectivity Index', dict(params).get('Injectivity Index', '5')]])
        pct = draw(st.one_of(gen.nice_floats(100.5, 250), gen.nice_floats(100, 400)))
        rate = draw(st.one_of(gen.nice_floats(1, 40), gen.nice_floats(0.1, 100)))
        params = gen.merge(params, [['Overpressure Percentage', gen.fmt(pct)], ['Overpressure Depletion Rate', gen.fmt(rate)]])
        k = draw(st.integers(0, 3))
        if k in (0, 2):
            params = gen.merge(params, [['Injection Reservoir Inflation Rate', gen.fmt(draw(gen.nice_floats(0, 1500)))]])
        if k in (1, 2):
            params = gen.merge(params, [['Injection Reservoir Depth', gen.fmt(draw(gen.nice_floats(500, 4000)))]])
        if k == 3:
            params = gen.merge(params, [['Injection Reservoir Inflation Rate', gen.fmt(draw(gen.nice_floats(1, 1500)))],
                                        ['Injection Reservoir Temperature', gen.fmt(draw(gen.nice_floats(40, 200)))]])
        labels.append('overpressure')
    return {'kind': 'run', 'family': base['family'], 'params': params, 'labels': labels + [f'hydraulic:{mode}']}


def _eval_run(case, rec):
    r = sim.run_params(case['params'], want_report=False)
    labels = list(case.get('labels', []))
    if not r.ok:
        rec.case(case, nontrivial=False, labels=['rejected', 'rejected:' + str(r.exc['type'])] +
                 (['rejected_overpressure'] if 'overpressure' in labels else []))
        return
    s = r.snap
    if s['misc']['wellbores_class'] != 'WellBores':
        rec.case(case, nontrivial=False, labels=['excluded_special_wellbores'])
        return
    wb, sp, ec = s['wellbores'], s['surfaceplant'], s['economics']
    life, tspy = sp['plant_lifetime'].value, ec['timestepsperyear'].value
    imp = bool(wb['impedancemodelused'].value)
    sig = dict(hydraulic='impedance' if imp else 'index')

    def bad(clause, detail, **extra):
        rec.violation(clause, {'kind': 'run', 'family': case.get('family'), 'params': case['params']}, detail, **sig, **extra)

    pp = np.asarray(wb['PumpingPower'].value, dtype=float)
    if (pp < 0).any():
        bad('pumping_power_negative', {'min': float(pp.min()), 'index': int(np.argmin(pp))})
    if not imp:
        inj = np.asarray(wb['PumpingPowerInj'].value, dtype=float)
        if (inj < 0).any():
            bad('injection_pumping_power_negative', {'min': float(inj.min())})
        if bool(wb['productionwellpumping'].value):
            prod = np.asarray(wb['PumpingPowerProd'].value, dtype=float)
            if (prod < 0).any():
                bad('production_pumping_power_negative', {'min': float(prod.min()), 'index': int(np.argmin(prod))})
            if prod.shape == pp.shape == inj.shape and not np.allclose(pp, prod + inj, rtol=1e-9, atol=1e-12):
                k = int(np.argmax(np.abs(pp - prod - inj)))
                bad('total_not_sum_of_pumps', {'index': k, 'total': float(pp[k]), 'prod': float(prod[k]), 'inj': float(inj[k])})
            labels.append('both_pumps_modelled')
        else:
            if inj.shape == pp.shape and not np.allclose(pp, inj, rtol=1e-9, atol=1e-12):
                bad('total_not_injection_only', {})
            labels.append('self_flowing_production')
    over = wb['overpressure_percentage']
    nt = bool((pp > 0).any())
    if over.provided and over.value >= 100.0:
        pct, rate = float(over.value), float(wb['overpressure_depletion_rate'].value)
        series = wb['production_reservoir_pressure'].value
        if pct > 100 and rate > 0 and hasattr(series, '__len__'):
            info = check_depletion_series(series, None, pct, rate, tspy, life * tspy, bad, 'run')
            labels.append('run_reaches_hydrostatic' if info.get('reaches_hydrostatic') else 'run_stays_overpressured')
            nt = True
        injp = wb['injection_reservoir_pressure'].value
        if (wb['injection_reservoir_depth'].provided or wb['injection_reservoir_inflation_rate'].provided) and hasattr(injp, '__len__'):
            pj = np.asarray(injp, dtype=float)
            ir = float(wb['injection_reservoir_inflation_rate'].value)
            if len(pj) != life * tspy:
                bad('pressure_series_length', {'len': len(pj), 'expected': life * tspy}, where='run_injection')
            else:
                want = pj[0] + (ir / tspy) * np.arange(len(pj))
                if not np.allclose(pj, want, rtol=1e-12, atol=1e-9):
                    k = int(np.argmax(np.abs(pj - want)))
                    bad('injection_pressure_rate', {'index': k, 'got': float(pj[k]), 'expected': float(want[k]), 'rate': ir}, where='run')
                if (np.diff(pj) < -1e-9).any():
                    bad('injection_pressure_falls', {}, where='run')
            labels.append('split_injection_reservoir')
    labels += ['pumping>0' if (pp > 0).any() else 'pumping=0', f'plant:{s["misc"]["surfaceplant_class"]}']
    rec.case(case, nontrivial=nt, labels=labels, key=case['params'],
             sample={'family': case.get('family'), 'hydraulic': sig['hydraulic'], 'max_pumping_MW': float(pp.max()),
                     'overpressure': float(over.value) if over.provided else None})


def run_shard(spec, rec):
    kind = spec['kind']
    strat, fn0 = {'pred': (pred_args(), _eval_pred), 'friction': (friction_args(), _eval_friction),
                  'run': (run_cases(spec.get('tier', 'quick')), _eval_run)}[kind]

    def fn(c):
        if rec.out_of_time():
            return
        fn0(c, rec)
    drive(strat, fn, spec['n'], spec['seed'])


def evaluate(case, rec):
    k = case.get('kind')
    if k == 'pred':
        _eval_pred(tuple(case['args']), rec)
    elif k == 'friction':
        _eval_friction(tuple(case['args']), rec)
    else:
        _eval_run(case, rec)


NO_SHRINK = True
