"""C14 - Monte Carlo rows are reproducible, never torn, the statistics describe them, the JSON equals the text summary,
and a failing iteration affects only its own row."""
import os
import re
import shutil
import sys
import tempfile

import numpy as np
from hypothesis import strategies as st

from .. import mc, sim, worker
from ..runner import drive

ID = 'C14'
LEVEL = 'exploration'
BUDGET_S = {'quick': 420, 'thorough': 1800}
RULE = ('Hypothesis settings files as in C13 plus a fault mix (one input whose distribution straddles a validity bound with '
        'probability 0.2/0.5/0.8 so a subset of iterations fails), GEOPHIRES and HIP-RA-X bases, sampled parameters whose names '
        'are prefixes of other parameters in the base file, worker counts {1,2,3,5,16,33}. Oracle: (i) replay - rows (all when '
        '<= 12, else a sample) are re-simulated through the client from base input + recorded values and the requested outputs '
        'extracted by the documented label rule must equal the row, in header order; (ii) every data row matches the strict '
        'grammar with exactly k outputs and all input names in order, rows <= ITERATIONS, == ITERATIONS without fault mix, and '
        'with a fault mix rows == number of recorded samples inside the valid range is checked on the surviving rows and the '
        'expected survivor count is bounded statistically; (iii) min/max/median/mean/std block equals numpy recomputation at the '
        'printed 2 decimals and the .json equals the text block. Non-trivial = >= 10 rows and >= 2 outputs, or a fault-mix run '
        'with >= 1 failed and >= 1 successful iteration. One case in three with >= 2 workers runs under an injected schedule fault: '
        'the row append is made non-atomic (2-5 pieces, flushed, 1-5 ms pauses) so concurrent appends overlap in time unless the '
        'writer excludes them; the same grammar / row-count / replay clauses then decide "never torn or interleaved". One case in '
        'four is preceded, in the same process, by another Monte Carlo request on the same base-input path whose base differs in one '
        'non-sampled input (with a "#" mean); the rows of the run under test must replay against its own base.')
ASSUMPTIONS = ['outputs are labels occurring exactly once in the base report (a label matching twice is skipped by the driver: domain restriction)',
               'survivor-count bound under the fault mix: exact binomial 1e-9 lower quantile (a failing iteration must not take other iterations down)']

# sampled parameters whose name is a prefix of another parameter that the base file sets to a non-default value which
# matters for a tracked output: (sampled name, lo, hi, extra base lines, output that depends on the longer-named parameter)
PREFIX_PARAMS = [('Inflation Rate', 0.01, 0.04, [['Economic Model', '3'], ['Inflation Rate During Construction', '0.15']], 'Electricity breakeven price'),
                 ('Reservoir Volume', 5e8, 2e9, [['Reservoir Volume Option', '4']], 'Average Net Electricity Production'),
                 ('Inflation Rate', 0.0, 0.05, [['Economic Model', '3'], ['Inflation Rate During Construction', '0.08'],
                                                ['Inflated Equity Interest Rate', '0.09']], 'Electricity breakeven price')]


def plan(tier, seed, shards):
    n = 5 if tier == 'quick' else 30
    return [{'kind': 'mc', 'n': n, 'seed': seed * 1000 + s, 'tier': tier} for s in range(min(shards, 12))]


@st.composite
def cases(draw, tier):
    fault = draw(st.sampled_from([True, False, False]))
    s = draw(mc.settings(fault_mix=fault, max_iter=40 if tier == 'quick' else 150))
    s['extra_base'] = []
    if s['program'] == 'GEO' and draw(st.integers(0, 2)) == 0:
        name, lo, hi, extra, out = draw(st.sampled_from(PREFIX_PARAMS))
        s['inputs'] = [i for i in s['inputs'] if i[0] != name] + [[name, 'uniform', lo, hi]]
        s['extra_base'] = extra
        if out not in s['outputs']:
            s['outputs'] = [out] + s['outputs'][:2]
    s['prelude'] = None
    if draw(st.integers(0, 3)) == 0:
        # an earlier request in the same process on the same base path, whose base differs in one input that is not sampled
        sampled = {i[0] for i in s['inputs']}
        cands = [(n, v) for n, v in ([('Reservoir Area', '82.5'), ('Reservoir Thickness', '0.375'), ('Reservoir Porosity', '15.0')] if s['program'] == 'HIP'
                                      else [('Reservoir Depth', '3.6'), ('Number of Production Wells', '3')]) if n not in sampled]
        if cands:
            s['prelude'] = list(draw(st.sampled_from(cands)))
    s['slow_writes'] = None
    if s['workers'] > 1 and draw(st.integers(0, 2)) == 0:
        # schedule fault: non-atomic row appends (pieces, pause in ms) - concurrent appends now overlap in time unless excluded
        s['slow_writes'] = [draw(st.integers(2, 5)), draw(st.sampled_from([1, 2, 5]))]
        if not fault:
            s['iterations'] = max(s['iterations'], draw(st.integers(24, 60)))
    if fault:
        # many cheap iterations give the survivor-count bound its power
        s['iterations'] = draw(st.integers(80, 200 if tier == 'quick' else 400)) if s['program'] == 'HIP' else draw(st.integers(30, 60))
    return s


def _replay(s, base_path, vals):
    """base input + the row's recorded values through the client -> report text"""
    worker.init_worker()
    stash_cwd, stash_argv = os.getcwd(), sys.argv
    try:
        with worker.quiet():
            if s['program'] == 'GEO':
                from geophires_x_client import GeophiresXClient, GeophiresInputParameters
                res = GeophiresXClient(enable_caching=False).get_geophires_result(
                    GeophiresInputParameters(from_file_path=base_path, params=vals))
                pth = res.output_file_path
            else:
                from hip_ra_x import HipRaXClient
                from hip_ra import HipRaInputParameters
                with open(base_path) as f:
                    txt = f.read()
                if not txt.endswith('\n'):
                    txt += '\n'
                p2 = base_path + f'.replay{os.getpid()}.txt'
                with open(p2, 'w') as f:
                    f.write(txt + ''.join(f'{k}, {v}\n' for k, v in vals.items()))
                res = HipRaXClient().get_hip_ra_result(HipRaInputParameters(p2))
                pth = res.output_file_path
        with open(pth, encoding='UTF-8') as f:
            return f.read(), None
    except BaseException as e:
        if isinstance(e, (KeyboardInterrupt, MemoryError)):
            raise
        return None, sim._exc_info(e)
    finally:
        sys.argv = stash_argv
        os.chdir(stash_cwd)


def extract(report, label):
    """documented label rule: the single line containing '  <label>: ', first token after the colon"""
    m = [ln for ln in report.splitlines() if f'  {label}: ' in ln]
    if len(m) != 1:
        return None
    return m[0].split(':')[1].strip().split(' ')[0].strip()


def evaluate(s, rec):
    worker.init_worker()
    d = tempfile.mkdtemp(prefix='c14-', dir=worker.scratch_dir())
    case = {k: s.get(k) for k in ('program', 'inputs', 'outputs', 'iterations', 'workers', 'fault', 'final_newline', 'extra_base', 'slow_writes', 'prelude')}
    sig = dict(program=s['program'], slow_writes=bool(s.get('slow_writes')))

    def bad(clause, detail, **extra):
        rec.violation(clause, case, detail, **sig, **extra)

    try:
        # base text with the extra lines
        orig_base = mc.base_text

        def base_text(ss):
            t = orig_base(dict(ss, final_newline=True))
            t += sim.render(ss.get('extra_base') or [])
            return t if ss.get('final_newline', True) else t[:-1]
        mc.base_text = base_text
        try:
            r = mc.run_mc(s, d)
        finally:
            mc.base_text = orig_base
        rows = r.get('rows', [])
        parsed = [mc.parse_row(x, s) for x in rows]
        good = [p for p in parsed if p]
        fault = s.get('fault')
        labels = [f'program:{s["program"]}', f'workers:{s["workers"]}', 'fault_mix' if fault else 'no_fault']
        if s.get('extra_base'):
            labels.append('sampled_name_is_prefix_of_another_parameter')
        if s.get('slow_writes'):
            labels.append('non_atomic_row_appends_injected')
        if s.get('prelude'):
            labels.append('earlier_request_in_same_process_on_same_base_path')
        nt = (len(rows) >= 10 and len(s['outputs']) >= 2) or bool(fault and 0 < len(rows) < s['iterations'])
        rec.case(case, nontrivial=nt, labels=labels, key=case,
                 sample={'settings': mc.settings_text(s).splitlines(), 'workers': s['workers'], 'rows': len(rows), 'fault': fault})
        if 'rows' not in r:
            if fault and r.get('error') and 'No MC results' in str(r.get('error')):
                rec.label('all_iterations_failed')
                return
            bad('mc_run_failed', {'error': r.get('error')})
            return
        torn = [x for x, p in zip(rows, parsed) if p is None]
        if torn:
            bad('row_grammar', {'bad_rows': torn[:3], 'n_bad': len(torn)})
        hdr = ', '.join(s['outputs'] + [i[0] for i in s['inputs']])
        if r.get('header', '').strip() != hdr:
            bad('header', {'header': r.get('header'), 'expected': hdr})
        if len(rows) > s['iterations']:
            bad('row_count', {'rows': len(rows), 'iterations': s['iterations']}, direction='more')
        if not fault and len(rows) != s['iterations']:
            bad('row_count', {'rows': len(rows), 'iterations': s['iterations'], 'mc_error': r.get('error')}, direction='fewer')
        if fault:
            # surviving rows must hold valid samples only, and a failing iteration must not take others down:
            # survivors ~ Binomial(iterations, 1 - p_fail)
            for p in good:
                if float(p[1][fault['name']]) > fault['valid_max']:
                    bad('row_for_failed_iteration', {'sample': p[1][fault['name']], 'valid_max': fault['valid_max']})
                    break
            n, q = s['iterations'], 1 - fault['p_fail']
            from scipy.stats import binom
            lo = int(binom.ppf(1e-9, n, q))  # survivors ~ Binomial(n, q): fewer than this has probability < 1e-9
            if len(rows) < lo:
                bad('failing_iterations_take_others_down', {'rows': len(rows), 'iterations': n, 'p_success': q, 'binomial_1e-9_quantile': lo,
                                                           'workers': s['workers']})
        # ---- replay
        todo = good if len(good) <= 12 else [good[i] for i in sorted(set(np.linspace(0, len(good) - 1, 8).astype(int)))]
        for outs, vals in todo:
            rep, err = _replay(s, r['paths']['base'], vals)
            if rep is None:
                bad('row_does_not_replay', {'error': err, 'values': vals}, outcome='replay_failed')
                break
            want = [extract(rep, o) for o in s['outputs']]
            if want != outs:
                bad('row_does_not_replay', {'row_outputs': outs, 'resimulated': want, 'outputs': s['outputs'], 'values': vals},
                    outcome='values_differ')
                break
        rec.count('rows_replayed', len(todo))
        # ---- statistics block and JSON
        if good and not r.get('ok'):
            # iterations succeeded and left rows, yet the run ends without describing them
            err = str(r.get('error'))
            kind = ('histogram_index_error' if 'IndexError: index -9223372036854775808' in err else
                    'no_results_message' if 'No MC results generated' in err else 'other')
            cols = list(zip(*[p[0] for p in good]))
            huge_const = any(len(set(c)) == 1 and abs(float(c[0])) >= 2 ** 52 for c in cols)
            bad('no_summary_although_rows_exist', {'rows': len(good), 'error': err[:300], 'n_outputs': len(s['outputs'])},
                error_kind=kind, constant_output_beyond_2e52=str(huge_const))
        if good and r.get('ok'):
            try:
                arr = np.array([[float(o.replace(',', '')) for o in p[0]] for p in good])
            except ValueError:
                arr = None
            st_txt = r.get('stats_text', '')
            js = r.get('json') or {}
            for k, o in enumerate(s['outputs']):
                blk = re.search(re.escape(o) + r':\n((?:\s+[a-z ]+: .*\n){6})', st_txt)
                if not blk:
                    bad('statistics_block_missing', {'output': o})
                    continue
                got = {}
                for ln in blk.group(1).splitlines():
                    nm, v = ln.strip().split(': ')
                    got[nm] = v
                if arr is not None:
                    col = arr[:, k]
                    want = {'minimum': np.min(col), 'maximum': np.max(col), 'median': np.median(col), 'average': np.average(col),
                            'mean': np.mean(col), 'standard deviation': np.std(col)}
                    for nm, wv in want.items():
                        try:
                            gv = float(got[nm].replace(',', ''))
                        except (KeyError, ValueError):
                            bad('statistic_unreadable', {'output': o, 'stat': nm, 'printed': got.get(nm)})
                            continue
                        if abs(gv - wv) > 0.005 + 1e-9 * abs(wv):
                            bad('statistic_differs_from_rows', {'output': o, 'stat': nm, 'printed': gv, 'recomputed': float(wv), 'rows': len(col)}, stat=nm)
                        if o in js and nm in js[o]:
                            if abs(float(js[o][nm]) - gv) > 0.005 + 1e-9 * abs(gv):
                                bad('json_differs_from_text', {'output': o, 'stat': nm, 'json': js[o][nm], 'text': gv}, stat=nm)
                if o not in js:
                    bad('json_missing_output', {'output': o, 'json_keys': sorted(js)[:6]})
    finally:
        shutil.rmtree(d, ignore_errors=True)


def run_shard(spec, rec):
    def fn(s):
        if rec.out_of_time():
            return
        evaluate(s, rec)
    drive(cases(spec['tier']), fn, spec['n'], spec['seed'])


NO_SHRINK = True
