"""Runner: tiers, seed, sharding over a process pool, collect-then-shrink, known findings, evidence, exit codes.

usage: python -m gxv.runner <ID> [--tier quick|thorough] [--replay FILE] [--shards N]

exit 0 = held on everything explored (KNOWN-FINDING lines allowed); 1 = unlisted violation
(VIOLATION property=<id> replay=<path>); 2 = harness error (HARNESS-ERROR ...), never a violation.
"""
import argparse
import hashlib
import importlib
import json
import multiprocessing as mp
import os
import shutil
import sys
import tempfile
import time
import traceback

from . import VERIF_DIR

# where shrunk failures go; trials against scratch worktrees (tools/mutant.sh) point this elsewhere
REPLAY_DIR = os.environ.get('GXV_REPLAY_DIR') or os.path.join(VERIF_DIR, 'replay')
from . import findings as findings_mod

MAX_SAMPLES = 8


def canon(obj) -> str:
    return json.dumps(obj, sort_keys=True, default=repr)


def case_hash(obj) -> str:
    return hashlib.sha1(canon(obj).encode()).hexdigest()[:16]


class Recorder:
    """Per-shard accumulator; merged in the parent."""

    def __init__(self, deadline=None):
        self.evaluations = 0
        self.nontrivial = set()
        self.labels = {}
        self.counts = {}
        self.samples = []
        self.violations = []
        self.deadline = deadline
        self.budget_exhausted = False

    def out_of_time(self) -> bool:
        if self.deadline is not None and time.time() > self.deadline:
            self.budget_exhausted = True
            return True
        return False

    def case(self, case, nontrivial=False, labels=(), sample=None, key=None):
        self.evaluations += 1
        if nontrivial:
            self.nontrivial.add(case_hash(key if key is not None else case))
        for lab in labels:
            self.labels[lab] = self.labels.get(lab, 0) + 1
        if nontrivial and len(self.samples) < MAX_SAMPLES:
            self.samples.append(sample if sample is not None else case)

    def count(self, name, n=1):
        self.counts[name] = self.counts.get(name, 0) + n

    def label(self, lab, n=1):
        self.labels[lab] = self.labels.get(lab, 0) + n

    def violation(self, clause, case, detail, **sig):
        if len(self.violations) < 400:
            self.violations.append({'clause': clause, 'sig': {k: str(v) for k, v in sig.items()},
                                    'detail': detail, 'case': case})
        self.count('violation_records')

    def dump(self):
        return {'evaluations': self.evaluations, 'nontrivial': sorted(self.nontrivial), 'labels': self.labels,
                'counts': self.counts, 'samples': self.samples, 'violations': self.violations,
                'budget_exhausted': self.budget_exhausted}


class _BudgetOver(BaseException):
    """raised inside a Hypothesis run once the tier budget is used up: ends the generation of the shard at once (a BaseException
    is not a test failure to Hypothesis; nothing is replayed or shrunk)"""


_CURRENT = {'rec': None}


def drive(strategy, fn, n, seed):
    """Run fn over n Hypothesis-generated cases (generation only; failures are recorded by fn, not raised).  Generation stops
    as soon as the budget of the recorder of the running shard is used up."""
    from hypothesis import given, settings, HealthCheck, Phase, seed as hseed

    @hseed(seed)
    @settings(max_examples=n, database=None, deadline=None, phases=[Phase.generate], derandomize=False,
              suppress_health_check=list(HealthCheck), report_multiple_bugs=False)
    @given(strategy)
    def _t(case):
        rec = _CURRENT['rec']
        if rec is not None and rec.out_of_time():
            raise _BudgetOver()
        fn(case)

    try:
        _t()
    except _BudgetOver:
        pass


# ---------------------------------------------------------------- pool plumbing

def _worker_init(scratch_root):
    os.environ['GXV_SCRATCH_ROOT'] = scratch_root
    os.environ.setdefault('PYTHONHASHSEED', '0')
    import random
    random.seed(0)
    try:
        import resource
        lim = int(os.environ.get('GXV_WORKER_MEM_GB', '10')) * 1024 ** 3
        resource.setrlimit(resource.RLIMIT_AS, (lim, lim))  # a runaway allocation becomes a MemoryError inside the run, not an OOM kill
    except Exception:
        pass
    import faulthandler, signal
    dbg = os.environ.get('GXV_DEBUG_DIR')
    if dbg:
        faulthandler.register(signal.SIGUSR1, file=open(os.path.join(dbg, f'tb-{os.getpid()}.txt'), 'w'), all_threads=True)


def _run_shard(args):
    mod_name, spec, deadline = args
    try:
        mod = importlib.import_module(mod_name)
        rec = Recorder(deadline)
        _CURRENT['rec'] = rec
        # the check modules import this file as gxv.runner, which is another module object than __main__ when run with -m
        importlib.import_module('gxv.runner')._CURRENT['rec'] = rec
        mod.run_shard(spec, rec)
        return {'ok': True, 'rec': rec.dump(), 'spec': spec}
    except BaseException as e:  # harness problem (the code under test's exceptions are handled inside checks)
        return {'ok': False, 'err': ''.join(traceback.format_exception(type(e), e, e.__traceback__))[-4000:],
                'spec': spec}


def _evaluate(args):
    mod_name, case = args
    try:
        mod = importlib.import_module(mod_name)
        rec = Recorder()
        mod.evaluate(case, rec)
        return {'ok': True, 'violations': rec.violations}
    except BaseException as e:
        return {'ok': False, 'err': ''.join(traceback.format_exception(type(e), e, e.__traceback__))[-4000:]}


def bucket_key(v):
    return canon([v['clause'], v['sig']])


def _shrink(pool, mod_name, mod, viol, max_evals=60):
    """ddmin-lite over the case: use the check's own shrink_candidates(case) if given, else drop 'params' entries."""
    target = bucket_key(viol)
    case = viol['case']
    cand_fn = getattr(mod, 'shrink_candidates', None)
    if cand_fn is None:
        def cand_fn(c):
            if isinstance(c, dict) and isinstance(c.get('params'), list):
                for i in range(len(c['params'])):
                    c2 = dict(c)
                    c2['params'] = c['params'][:i] + c['params'][i + 1:]
                    yield c2
    evals = 0
    best = viol
    improved = True
    while improved and evals < max_evals:
        improved = False
        cands = list(cand_fn(best['case']))
        # evaluate in parallel batches
        for i in range(0, len(cands), 16):
            batch = cands[i:i + 16]
            if evals >= max_evals:
                break
            results = pool.map(_evaluate, [(mod_name, c) for c in batch])
            evals += len(batch)
            hit = None
            for c, r in zip(batch, results):
                if r['ok']:
                    for v in r['violations']:
                        if bucket_key(v) == target:
                            hit = v
                            break
                if hit:
                    break
            if hit:
                best = hit
                improved = True
                break
    return best


def main(argv=None):
    ap = argparse.ArgumentParser()
    ap.add_argument('prop')
    ap.add_argument('--tier', default=os.environ.get('VERIF_TIER', 'quick'), choices=['quick', 'thorough'])
    ap.add_argument('--replay')
    ap.add_argument('--shards', type=int, default=int(os.environ.get('GXV_SHARDS', '16')))
    ap.add_argument('--no-evidence', action='store_true')
    a = ap.parse_args(argv)
    pid = a.prop.upper()
    seed = int(os.environ.get('VERIF_SEED', '1') or '1')
    mod_name = f'gxv.checks.{pid.lower()}'
    t0 = time.time()
    scratch_root = tempfile.mkdtemp(prefix=f'gxv-{pid}-')
    rc = 2
    try:
        try:
            mod = importlib.import_module(mod_name)
        except Exception:
            print(f'HARNESS-ERROR property={pid} cannot import check module\n{traceback.format_exc()}')
            return 2
        ctx = mp.get_context('fork')
        if a.replay:
            return _replay(ctx, scratch_root, mod_name, mod, pid, a.replay)
        rc = _campaign(ctx, scratch_root, mod_name, mod, pid, a, seed, t0)
        return rc
    finally:
        shutil.rmtree(scratch_root, ignore_errors=True)


def _replay(ctx, scratch_root, mod_name, mod, pid, path):
    with open(path) as f:
        doc = json.load(f)
    case = doc['case'] if isinstance(doc, dict) and 'case' in doc else doc
    with ctx.Pool(1, initializer=_worker_init, initargs=(scratch_root,)) as pool:
        r = pool.map(_evaluate, [(mod_name, case)])[0]
    if not r['ok']:
        print(f'HARNESS-ERROR property={pid} replay failed\n{r["err"]}')
        return 2
    kf = findings_mod.load()
    bad = 0
    for v in r['violations']:
        m = findings_mod.match(kf, pid, v)
        if m:
            print(f'KNOWN-FINDING: property={pid} {m["what"]}')
        else:
            bad += 1
            print(f'violation clause={v["clause"]} sig={v["sig"]} detail={json.dumps(v["detail"], default=repr)[:600]}')
    if bad:
        print(f'VIOLATION property={pid} replay={path}')
        return 1
    print(f'OK property={pid} replay={path} (no unlisted violation)')
    return 0


def _campaign(ctx, scratch_root, mod_name, mod, pid, a, seed, t0):
    tier = a.tier
    budget = getattr(mod, 'BUDGET_S', {'quick': 240, 'thorough': 1500})[tier]
    deadline = t0 + budget
    specs = mod.plan(tier, seed, a.shards)
    nproc = min(a.shards, max(1, len(specs)), os.cpu_count() or 1)
    merged = Recorder()
    errors = []
    with ctx.Pool(nproc, initializer=_worker_init, initargs=(scratch_root,), maxtasksperchild=None) as pool:
        # corpus replay first (seconds-long tier of saved inputs)
        corpus_dir = os.path.join(VERIF_DIR, 'corpus', pid)
        corpus_cases = []
        if os.path.isdir(corpus_dir) and hasattr(mod, 'evaluate'):
            for fn in sorted(os.listdir(corpus_dir)):
                if fn.endswith('.json'):
                    with open(os.path.join(corpus_dir, fn)) as f:
                        doc = json.load(f)
                    corpus_cases.append(doc['case'] if isinstance(doc, dict) and 'case' in doc else doc)
        if corpus_cases:
            for c, r in zip(corpus_cases, pool.map(_evaluate, [(mod_name, c) for c in corpus_cases])):
                if not r['ok']:
                    errors.append(r['err'])
                else:
                    merged.count('corpus_replayed')
                    merged.violations.extend(r['violations'])
        it = pool.imap_unordered(_run_shard, [(mod_name, s, deadline) for s in specs])
        hard_deadline = deadline + max(300, budget)  # shards stop generating at `deadline`; this only catches hangs
        pids0 = {p.pid for p in pool._pool}
        while True:
            try:
                r = it.next(timeout=10.0)
            except StopIteration:
                break
            except mp.TimeoutError:
                if {p.pid for p in pool._pool} != pids0 or any(p.exitcode is not None for p in pool._pool):
                    # a worker process died (e.g. killed for memory): its shard is lost and the pool would wait for ever
                    pool.terminate()
                    print(f'HARNESS-ERROR property={pid} a worker process died (killed?) after {int(time.time() - t0)} s: '
                          f'inconclusive, not a violation')
                    return 2
                if time.time() < hard_deadline:
                    continue
                pool.terminate()
                print(f'HARNESS-ERROR property={pid} shard(s) still running {int(time.time() - t0)} s after start '
                      f'(budget {budget} s): inconclusive, not a violation')
                return 2
            if not r['ok']:
                errors.append(r['err'])
                continue
            d = r['rec']
            merged.evaluations += d['evaluations']
            merged.nontrivial.update(d['nontrivial'])
            for k, v in d['labels'].items():
                merged.labels[k] = merged.labels.get(k, 0) + v
            for k, v in d['counts'].items():
                merged.counts[k] = merged.counts.get(k, 0) + v
            for s in d['samples']:
                if len(merged.samples) < MAX_SAMPLES:
                    merged.samples.append(s)
            merged.violations.extend(d['violations'])
            merged.budget_exhausted |= d['budget_exhausted']
        if errors:
            print(f'HARNESS-ERROR property={pid} {len(errors)} shard(s) failed; first:\n{errors[0]}')
            return 2
        # bucket, match against known findings, shrink the rest
        kf = findings_mod.load()
        buckets = {}
        for v in merged.violations:
            buckets.setdefault(bucket_key(v), []).append(v)
        known_lines, unlisted = {}, []
        known_excluded = 0
        for k, vs in buckets.items():
            m = findings_mod.match(kf, pid, vs[0])
            if m:
                known_lines.setdefault(m['id'], m)
                known_excluded += len(vs)
            else:
                unlisted.append(vs)
        for m in known_lines.values():
            print(f'KNOWN-FINDING: property={pid} [{m["id"]}] {m["what"]}')
        replay_paths = []
        if unlisted:
            os.makedirs(REPLAY_DIR, exist_ok=True)
            for vs in unlisted[6:int(os.environ.get('GXV_MAX_PRINT', '60'))]:
                print(f'violation(more) clause={vs[0]["clause"]} sig={vs[0]["sig"]} occurrences={len(vs)} detail={json.dumps(vs[0]["detail"], default=repr)[:300]}')
            for vs in unlisted[:6]:
                v = vs[0]
                if hasattr(mod, 'evaluate') and not getattr(mod, 'NO_SHRINK', False):
                    try:
                        v = _shrink(pool, mod_name, mod, v)
                    except Exception:
                        pass
                path = os.path.join(REPLAY_DIR, f'{pid}-{case_hash([v["clause"], v["sig"]])}.json')
                with open(path, 'w') as f:
                    json.dump({'property': pid, 'clause': v['clause'], 'sig': v['sig'], 'detail': v['detail'],
                               'case': v['case'], 'seed': seed, 'tier': tier, 'occurrences': len(vs)}, f, indent=1,
                              default=repr)
                replay_paths.append(path)
                print(f'violation clause={v["clause"]} sig={v["sig"]} occurrences={len(vs)} '
                      f'detail={json.dumps(v["detail"], default=repr)[:500]}')
    wall = time.time() - t0
    finalize = getattr(mod, 'finalize', None)
    extra = finalize(merged) if finalize else {}
    distinct_nt = len(merged.nontrivial)
    ev = {
        'property_id': pid, 'tier': tier, 'seed': seed, 'level': getattr(mod, 'LEVEL', 'exploration'),
        'coverage': {
            'evaluations': merged.evaluations, 'distinct_nontrivial': distinct_nt, 'rule': mod.RULE,
            'samples': merged.samples[:MAX_SAMPLES], 'class_histogram': dict(sorted(merged.labels.items())),
            'counters': dict(sorted(merged.counts.items())), 'known_excluded': known_excluded,
            'known_findings_seen': sorted(known_lines), 'budget_exhausted': merged.budget_exhausted,
            'unlisted_violation_buckets': len(unlisted), **extra,
        },
        'assumptions': list(getattr(mod, 'ASSUMPTIONS', [])),
        'wall_s': round(wall, 2), 'violations': len(unlisted),
    }
    if getattr(mod, 'EXHAUSTIVE', False) and not merged.budget_exhausted:
        ev['coverage']['exhaustive'] = True
    if not a.no_evidence:
        os.makedirs(os.path.join(VERIF_DIR, 'evidence'), exist_ok=True)
        tmp = os.path.join(VERIF_DIR, 'evidence', f'.{pid}.json.tmp')
        with open(tmp, 'w') as f:
            json.dump(ev, f, indent=1, default=repr)
        os.replace(tmp, os.path.join(VERIF_DIR, 'evidence', f'{pid}.json'))
    if unlisted:
        for p in replay_paths:
            print(f'VIOLATION property={pid} replay={p}')
        return 1
    if merged.evaluations < 1 or distinct_nt < 2:
        print(f'HARNESS-ERROR property={pid} vacuous run: evaluations={merged.evaluations} nontrivial={distinct_nt}')
        return 2
    print(f'OK property={pid} tier={tier} seed={seed} evaluations={merged.evaluations} '
          f'distinct_nontrivial={distinct_nt} known_excluded={known_excluded} '
          f'budget_exhausted={merged.budget_exhausted} wall_s={wall:.1f}')
    return 0


if __name__ == '__main__':
    sys.exit(main())
