"""Shared generators: configuration families, parameter metadata from the live model, value strategies.

A *case* for run-level checks is {'family': str, 'params': [[name, value], ...]} where params fully determine the
input file (family only labels the case).  Values are strings exactly as written into the file."""
import math

from hypothesis import strategies as st

# --------------------------------------------------------------------------- base families
# fast reservoir (model 4 = percentage drawdown "TDP"; model 3 = single fracture m/A)
RES4 = [['Reservoir Model', '4'], ['Drawdown Parameter', '0.005'], ['Reservoir Depth', '3'],
        ['Number of Segments', '1'], ['Gradient 1', '50'], ['Maximum Temperature', '400'],
        ['Number of Production Wells', '2'], ['Number of Injection Wells', '2'],
        ['Production Flow Rate per Well', '55'], ['Injection Temperature', '50'],
        ['Reservoir Volume Option', '4'], ['Reservoir Volume', '1e9'], ['Maximum Drawdown', '1'],
        ['Productivity Index', '5'], ['Injectivity Index', '5'], ['Ramey Production Wellbore Model', '1'],
        ['Plant Lifetime', '25'], ['Time steps per year', '4'], ['Print Output to Console', '0']]
RES3 = [['Reservoir Model', '3'], ['Drawdown Parameter', '.00002'], ['Reservoir Depth', '2.5'],
        ['Number of Segments', '1'], ['Gradient 1', '55'], ['Maximum Temperature', '400'],
        ['Number of Production Wells', '2'], ['Number of Injection Wells', '2'],
        ['Production Flow Rate per Well', '60'], ['Injection Temperature', '60'],
        ['Reservoir Volume Option', '1'], ['Fracture Shape', '1'], ['Fracture Area', '200000'],
        ['Number of Fractures', '12'], ['Fracture Separation', '80'], ['Maximum Drawdown', '1'],
        ['Reservoir Impedance', '0.05'], ['Ramey Production Wellbore Model', '0'],
        ['Production Wellbore Temperature Drop', '5'], ['Injection Wellbore Temperature Gain', '3'],
        ['Plant Lifetime', '20'], ['Time steps per year', '3'], ['Print Output to Console', '0']]
RES1 = [['Reservoir Model', '1'], ['Reservoir Depth', '3'], ['Number of Segments', '1'], ['Gradient 1', '50'],
        ['Maximum Temperature', '400'], ['Number of Production Wells', '2'], ['Number of Injection Wells', '2'],
        ['Production Flow Rate per Well', '55'], ['Injection Temperature', '50'], ['Fracture Shape', '3'],
        ['Fracture Height', '900'], ['Reservoir Volume Option', '3'], ['Number of Fractures', '20'],
        ['Reservoir Volume', '1000000000'], ['Productivity Index', '5'], ['Injectivity Index', '5'],
        ['Maximum Drawdown', '1'], ['Plant Lifetime', '10'], ['Time steps per year', '2'],
        ['Print Output to Console', '0']]
RES2 = [['Reservoir Model', '2'], ['Reservoir Depth', '3'], ['Number of Segments', '1'], ['Gradient 1', '55'],
        ['Maximum Temperature', '400'], ['Number of Production Wells', '2'], ['Number of Injection Wells', '2'],
        ['Production Flow Rate per Well', '30'], ['Injection Temperature', '70'], ['Fracture Shape', '2'],
        ['Fracture Height', '300'], ['Reservoir Volume Option', '2'], ['Fracture Separation', '60'],
        ['Reservoir Volume', '125000000'], ['Reservoir Impedance', '0.05'], ['Maximum Drawdown', '1'],
        ['Plant Lifetime', '10'], ['Time steps per year', '2'], ['Print Output to Console', '0']]
RES0 = [['Reservoir Model', '0'], ['Reservoir Depth', '3'], ['Number of Segments', '1'], ['Gradient 1', '50'],
        ['Maximum Temperature', '400'], ['Number of Production Wells', '2'], ['Number of Injection Wells', '2'],
        ['Production Flow Rate per Well', '40'], ['Injection Temperature', '50'],
        ['Cylindrical Reservoir Input Depth', '3'], ['Cylindrical Reservoir Output Depth', '3'],
        ['Cylindrical Reservoir Length', '4'], ['Cylindrical Reservoir Radius of Effect', '30'],
        ['Reservoir Impedance', '0.05'], ['Plant Lifetime', '20'], ['Time steps per year', '2'],
        ['Print Output to Console', '0']]

RESERVOIRS = {'4': RES4, '3': RES3, '1': RES1, '2': RES2, '0': RES0}

ELEC = lambda plant: [['End-Use Option', '1'], ['Power Plant Type', str(plant)]]
HEAT = [['End-Use Option', '2'], ['Power Plant Type', '9']]
HEAT_LEGACY = lambda plant: [['End-Use Option', '2'], ['Power Plant Type', str(plant)]]
HEAT_NOPLANT = [['End-Use Option', '2']]
CHILLER = [['End-Use Option', '2'], ['Power Plant Type', '5'], ['Absorption Chiller COP', '0.7']]
HEATPUMP = [['End-Use Option', '2'], ['Power Plant Type', '6'], ['Heat Pump COP', '2.8'], ['Electricity Rate', '0.07']]
DISTRICT = [['End-Use Option', '2'], ['Power Plant Type', '7'], ['District Heating Demand Option', '1'],
            ['District Heating Demand File Name', 'Examples/cornell_heat_demand.csv'],
            ['District Heating Demand Data Time Resolution', '1'], ['District Heating Demand Data Column Number', '2'],
            ['Peaking Fuel Cost Rate', '0.0273'], ['Peaking Boiler Efficiency', '0.85'],
            ['District Heating Road Length', '3']]
COGEN = lambda eu, plant: [['End-Use Option', str(eu)], ['Power Plant Type', str(plant)]]

ECON = {
    '1': [['Economic Model', '1'], ['Fixed Charge Rate', '0.07']],
    '2': [['Economic Model', '2'], ['Discount Rate', '0.06']],
    '3': [['Economic Model', '3'], ['Inflated Equity Interest Rate', '0.08'], ['Combined Income Tax Rate', '0.3'],
          ['Gross Revenue Tax Rate', '0.01'], ['Fraction of Investment in Bonds', '0.4'],
          ['Inflated Bond Interest Rate', '0.05'], ['Inflation Rate', '0.02'], ['Investment Tax Credit Rate', '0.1'],
          ['Property Tax Rate', '0.01']],
}

ADDONS = [['Do AddOn Calculations', 'True'], ['AddOn Nickname 1', 'Desal'], ['AddOn CAPEX 1', '10'],
          ['AddOn OPEX 1', '0.1'], ['AddOn Electricity Gained 1', '-100'], ['AddOn Heat Gained 1', '0.0'],
          ['AddOn Profit Gained 1', '0.05'], ['AddOn Nickname 2', 'Methane'], ['AddOn CAPEX 2', '20'],
          ['AddOn OPEX 2', '1'], ['AddOn Electricity Gained 2', '26000.0'], ['AddOn Heat Gained 2', '0'],
          ['AddOn Profit Gained 2', '2.786']]
SDAC = [['Do S-DAC-GT Calculations', 'True']]

RUNNABLE_EXAMPLES = [
    'example1', 'example1_addons', 'example2', 'example3', 'example4', 'example5', 'example8', 'example9',
    'example10_HP', 'example11_AC', 'example12_DH', 'example13', 'example_ITC', 'example_PTC',
    'example_multiple_gradients', 'example_multiple_gradients-2', 'example_overpressure', 'example_overpressure2',
    'example_SHR-1', 'example_SHR-2', 'S-DAC-GT', 'Fervo_Norbeck_Latimer_2023', 'Fervo_Project_Cape',
    'Fervo_Project_Cape-2', 'Fervo_Project_Cape-3', 'example1_outputunits', 'SUTRAExample1',
    'Wanju_Yuan_Closed-Loop_Geothermal_Energy_Recovery', 'example_SBT_Lo_T', 'example_SBT_Hi_T',
]
FAST_EXAMPLES = [e for e in RUNNABLE_EXAMPLES if e not in (
    'example_SBT_Lo_T', 'example_SBT_Hi_T', 'Wanju_Yuan_Closed-Loop_Geothermal_Energy_Recovery')]


def merge(*blocks):
    """later blocks override earlier ones by name; order of first occurrence kept."""
    out, idx = [], {}
    for b in blocks:
        for n, v in b:
            if n in idx:
                out[idx[n]] = [n, v]
            else:
                idx[n] = len(out)
                out.append([n, v])
    return out


def set_param(params, name, value):
    return merge(params, [[name, value]])


def drop_param(params, name):
    return [p for p in params if p[0] != name]


def fmt(x) -> str:
    """float -> shortest string that round-trips (what a user would type)."""
    if isinstance(x, bool):
        return 'True' if x else 'False'
    if isinstance(x, int):
        return str(x)
    r = repr(float(x))
    return r


# --------------------------------------------------------------------------- strategies

def nice_floats(lo, hi):
    """boundary-biased floats in [lo, hi] plus round 'typed by a human' values."""
    lo, hi = float(lo), float(hi)
    if not (math.isfinite(lo) and math.isfinite(hi)) or lo > hi:
        raise ValueError((lo, hi))
    if lo == hi:
        return st.just(lo)
    span = hi - lo
    rounded = st.floats(lo, hi, allow_nan=False, allow_infinity=False).map(
        lambda x: min(hi, max(lo, float(f'{x:.3g}'))))
    frac = st.floats(0, 1).map(lambda u: lo + u * span)
    return st.one_of(rounded, frac, st.sampled_from([lo, hi]))


@st.composite
def surface_blocks(draw, allow_incoherent=False):
    """(label, block) for the end-use / plant selection."""
    kind = draw(st.sampled_from(['elec', 'heat', 'heat_legacy', 'heat_noplant', 'chiller', 'heatpump', 'district',
                                 'cogen', 'cogen', 'elec']))
    if kind == 'elec':
        p = draw(st.integers(1, 4))
        return f'elec-p{p}', ELEC(p)
    if kind == 'heat':
        return 'heat-p9', list(HEAT)
    if kind == 'heat_legacy':
        p = draw(st.integers(1, 4))
        return f'heat-p{p}', HEAT_LEGACY(p)
    if kind == 'heat_noplant':
        return 'heat-nop', list(HEAT_NOPLANT)
    if kind == 'chiller':
        return 'chiller', merge(CHILLER, [['Absorption Chiller COP', fmt(draw(nice_floats(0.3, 1.5)))]])
    if kind == 'heatpump':
        return 'heatpump', merge(HEATPUMP, [['Heat Pump COP', fmt(draw(nice_floats(1.5, 6)))]])
    if kind == 'district':
        return 'district', list(DISTRICT)
    eu = draw(st.sampled_from([31, 32, 41, 42, 51, 52]))
    p = draw(st.integers(1, 4))
    blk = COGEN(eu, p)
    if eu in (51, 52):
        blk = blk + [['CHP Fraction', fmt(draw(nice_floats(0.05, 0.95)))]]
    if eu in (41, 42):
        blk = blk + [['CHP Bottoming Entering Temperature', fmt(draw(nice_floats(100, 170)))]]
    return f'cogen{eu}-p{p}', blk


@st.composite
def econ_blocks(draw):
    m = draw(st.sampled_from(['1', '2', '3']))
    blk = [list(x) for x in ECON[m]]
    if m == '1':
        blk[1][1] = fmt(draw(nice_floats(0.01, 0.3)))
    elif m == '2':
        blk[1][1] = fmt(draw(nice_floats(0.0, 0.3)))
    else:
        vals = {'Inflated Equity Interest Rate': (0.01, 0.3), 'Combined Income Tax Rate': (0, 0.6),
                'Gross Revenue Tax Rate': (0, 0.2), 'Fraction of Investment in Bonds': (0, 0.9),
                'Inflated Bond Interest Rate': (0.0, 0.2), 'Inflation Rate': (0, 0.1),
                'Investment Tax Credit Rate': (0, 0.5), 'Property Tax Rate': (0, 0.05)}
        for row in blk[1:]:
            lo, hi = vals[row[0]]
            if draw(st.booleans()):
                row[1] = fmt(draw(nice_floats(lo, hi)))
    return f'econ{m}', blk


@st.composite
def reservoir_blocks(draw, models=('4', '3'), slow_fraction=0.0, max_steps=2000):
    """reservoir + time grid; slow models (1,2) only with few steps."""
    if slow_fraction and draw(st.floats(0, 1)) < slow_fraction:
        m = draw(st.sampled_from(['1', '2']))
    else:
        m = draw(st.sampled_from(list(models)))
    blk = [list(x) for x in RESERVOIRS[m]]
    life = draw(st.one_of(st.integers(1, 40), st.integers(1, 100), st.sampled_from([1, 2, 30, 100])))
    if m in ('1', '2'):
        life = min(life, 12)
        tspy = draw(st.integers(1, 3))
    else:
        tspy = draw(st.one_of(st.integers(1, 12), st.integers(1, 100)))
        while life * tspy > max_steps:
            tspy = max(1, tspy // 2)
    blk = merge(blk, [['Plant Lifetime', str(life)], ['Time steps per year', str(tspy)]])
    # resource
    blk = merge(blk, [['Gradient 1', fmt(draw(nice_floats(25, 90)))],
                      ['Reservoir Depth', fmt(draw(nice_floats(1.5, 6)))],
                      ['Production Flow Rate per Well', fmt(draw(nice_floats(20, 110)))],
                      ['Injection Temperature', fmt(draw(nice_floats(30, 90)))]])
    if m == '4':
        blk = merge(blk, [['Drawdown Parameter', fmt(draw(nice_floats(0.0, 0.04)))]])
    if m == '3':
        blk = merge(blk, [['Drawdown Parameter', fmt(draw(nice_floats(1e-6, 2e-4)))]])
    if m in ('3', '4') and draw(st.integers(0, 3)) == 0:
        blk = merge(blk, [['Maximum Drawdown', fmt(draw(nice_floats(0.02, 0.6)))]])
    blk = merge(blk, [['Number of Production Wells', str(draw(st.integers(1, 6)))],
                      ['Number of Injection Wells', str(draw(st.integers(1, 6)))]])
    return f'res{m}', blk
