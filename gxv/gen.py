"""Shared generators: configuration families, parameter metadata from the live model, value strategies.

A *case* for run-level checks is {'family': str, 'params': [[name, value], ...]} where params fully determine the
input file (family only labels the case).  Values are strings exactly as written into the file."""
import math

from hypothesis import strategies as st

# --------------------------------------------------------------------------- base families
# fast reservoir (model 4 = percentage drawdown "TDP"; model 3 = single fracture m/A)
RES4 = [['Reservoir Model', '4'], ['Drawdown Parameter', '0.005'], ['Reservoir Depth', '3'],
        ['Number of Segments', '1'], ['Gradient 1', '50'], ['Maximum Temperature', '400'],
        ['Number of Production Wells', '2'], ['Number of Injection Wells', '2'],
        ['Production Flow Rate per Well', '55'], ['Injection Temperature', '50'],
        ['Reservoir Volume Option', '4'], ['Reservoir Volume', '1e9'], ['Maximum Drawdown', '1'],
        ['Productivity Index', '5'], ['Injectivity Index', '5'], ['Ramey Production Wellbore Model', '1'],
        ['Plant Lifetime', '25'], ['Time steps per year', '4'], ['Print Output to Console', '0']]
RES3 = [['Reservoir Model', '3'], ['Drawdown Parameter', '.00002'], ['Reservoir Depth', '2.5'],
        ['Number of Segments', '1'], ['Gradient 1', '55'], ['Maximum Temperature', '400'],
        ['Number of Production Wells', '2'], ['Number of Injection Wells', '2'],
        ['Production Flow Rate per Well', '60'], ['Injection Temperature', '60'],
        ['Reservoir Volume Option', '1'], ['Fracture Shape', '1'], ['Fracture Area', '200000'],
        ['Number of Fractures', '12'], ['Fracture Separation', '80'], ['Maximum Drawdown', '1'],
        ['Reservoir Impedance', '0.05'], ['Ramey Production Wellbore Model', '0'],
        ['Production Wellbore Temperature Drop', '5'], ['Injection Wellbore Temperature Gain', '3'],
        ['Plant Lifetime', '20'], ['Time steps per year', '3'], ['Print Output to Console', '0']]
RES1 = [['Reservoir Model', '1'], ['Reservoir Depth', '3'], ['Number of Segments', '1'], ['Gradient 1', '50'],
        ['Maximum Temperature', '400'], ['Number of Production Wells', '2'], ['Number of Injection Wells', '2'],
        ['Production Flow Rate per Well', '55'], ['Injection Temperature', '50'], ['Fracture Shape', '3'],
        ['Fracture Height', '900'], ['Reservoir Volume Option', '3'], ['Number of Fractures', '20'],
        ['Reservoir Volume', '1000000000'], ['Productivity Index', '5'], ['Injectivity Index', '5'],
        ['Maximum Drawdown', '1'], ['Plant Lifetime', '10'], ['Time steps per year', '2'],
        ['Print Output to Console', '0']]
RES2 = [['Reservoir Model', '2'], ['Reservoir Depth', '3'], ['Number of Segments', '1'], ['Gradient 1', '55'],
        ['Maximum Temperature', '400'], ['Number of Production Wells', '2'], ['Number of Injection Wells', '2'],
        ['Production Flow Rate per Well', '30'], ['Injection Temperature', '70'], ['Fracture Shape', '2'],
        ['Fracture Height', '300'], ['Reservoir Volume Option', '2'], ['Fracture Separation', '60'],
        ['Reservoir Volume', '125000000'], ['Reservoir Impedance', '0.05'], ['Maximum Drawdown', '1'],
        ['Plant Lifetime', '10'], ['Time steps per year', '2'], ['Print Output to Console', '0']]
RES0 = [['Reservoir Model', '0'], ['Reservoir Depth', '3'], ['Number of Segments', '1'], ['Gradient 1', '50'],
        ['Maximum Temperature', '400'], ['Number of Production Wells', '2'], ['Number of Injection Wells', '2'],
        ['Production Flow Rate per Well', '40'], ['Injection Temperature', '50'],
        ['Cylindrical Reservoir Input Depth', '3'], ['Cylindrical Reservoir Output Depth', '3'],
        ['Cylindrical Reservoir Length', '4'], ['Cylindrical Reservoir Radius of Effect', '30'],
        ['Reservoir Impedance', '0.05'], ['Plant Lifetime', '20'], ['Time steps per year', '2'],
        ['Print Output to Console', '0']]

RESERVOIRS = {'4': RES4, '3': RES3, '1': RES1, '2': RES2, '0': RES0}

ELEC = lambda plant: [['End-Use Option', '1'], ['Power Plant Type', str(plant)]]
HEAT = [['End-Use Option', '2'], ['Power Plant Type', '9']]
HEAT_LEGACY = lambda plant: [['End-Use Option', '2'], ['Power Plant Type', str(plant)]]
HEAT_NOPLANT = [['End-Use Option', '2']]
CHILLER = [['End-Use Option', '2'], ['Power Plant Type', '5'], ['Absorption Chiller COP', '0.7']]
HEATPUMP = [['End-Use Option', '2'], ['Power Plant Type', '6'], ['Heat Pump COP', '2.8'], ['Electricity Rate', '0.07']]
DISTRICT = [['End-Use Option', '2'], ['Power Plant Type', '7'], ['District Heating Demand Option', '1'],
            ['District Heating Demand File Name', 'Examples/cornell_heat_demand.csv'],
            ['District Heating Demand Data Time Resolution', '1'], ['District Heating Demand Data Column Number', '2'],
            ['Peaking Fuel Cost Rate', '0.0273'], ['Peaking Boiler Efficiency', '0.85'],
            ['District Heating Road Length', '3']]
COGEN = lambda eu, plant: [['End-Use Option', str(eu)], ['Power Plant Type', str(plant)]]

ECON = {
    '1': [['Economic Model', '1'], ['Fixed Charge Rate', '0.07']],
    '2': [['Economic Model', '2'], ['Discount Rate', '0.06']],
    '3': [['Economic Model', '3'], ['Inflated Equity Interest Rate', '0.08'], ['Combined Income Tax Rate', '0.3'],
          ['Gross Revenue Tax Rate', '0.01'], ['Fraction of Investment in Bonds', '0.4'],
          ['Inflated Bond Interest Rate', '0.05'], ['Inflation Rate', '0.02'], ['Investment Tax Credit Rate', '0.1'],
          ['Property Tax Rate', '0.01']],
}

ADDONS = [['Do AddOn Calculations', 'True'], ['AddOn Nickname 1', 'Desal'], ['AddOn CAPEX 1', '10'],
          ['AddOn OPEX 1', '0.1'], ['AddOn Electricity Gained 1', '-100'], ['AddOn Heat Gained 1', '0.0'],
          ['AddOn Profit Gained 1', '0.05'], ['AddOn Nickname 2', 'Methane'], ['AddOn CAPEX 2', '20'],
          ['AddOn OPEX 2', '1'], ['AddOn Electricity Gained 2', '26000.0'], ['AddOn Heat Gained 2', '0'],
          ['AddOn Profit Gained 2', '2.786']]
SDAC = [['Do S-DAC-GT Calculations', 'True']]

RUNNABLE_EXAMPLES = [
    'example1', 'example1_addons', 'example2', 'example3', 'example4', 'example5', 'example8', 'example9',
    'example10_HP', 'example11_AC', 'example12_DH', 'example13', 'example_ITC', 'example_PTC',
    'example_multiple_gradients', 'example_multiple_gradients-2', 'example_overpressure', 'example_overpressure2',
    'example_SHR-1', 'example_SHR-2', 'S-DAC-GT', 'Fervo_Norbeck_Latimer_2023', 'Fervo_Project_Cape',
    'Fervo_Project_Cape-2', 'Fervo_Project_Cape-3', 'example1_outputunits', 'SUTRAExample1',
    'Wanju_Yuan_Closed-Loop_Geothermal_Energy_Recovery', 'example_SBT_Lo_T', 'example_SBT_Hi_T',
]
FAST_EXAMPLES = [e for e in RUNNABLE_EXAMPLES if e not in (
    'example_SBT_Lo_T', 'example_SBT_Hi_T', 'Wanju_Yuan_Closed-Loop_Geothermal_Energy_Recovery')]


def merge(*blocks):
    """later blocks override earlier ones by name; order of first occurrence kept."""
    out, idx = [], {}
    for b in blocks:
        for n, v in b:
            if n in idx:
                out[idx[n]] = [n, v]
            else:
                idx[n] = len(out)
                out.append([n, v])
    return out


def set_param(params, name, value):
    return merge(params, [[name, value]])


def drop_param(params, name):
    return [p for p in params if p[0] != name]


def fmt(x) -> str:
    """float -> shortest string that round-trips (what a user would type)."""
    if isinstance(x, bool):
        return 'True' if x else 'False'
    if isinstance(x, int):
        return str(x)
    r = repr(float(x))
    return r


# --------------------------------------------------------------------------- strategies

def nice_floats(lo, hi):
    """boundary-biased floats in [lo, hi] plus round 'typed by a human' values."""
    lo, hi = float(lo), float(hi)
    if not (math.isfinite(lo) and math.isfinite(hi)) or lo > hi:
        raise ValueError((lo, hi))
    if lo == hi:
        return st.just(lo)
    span = hi - lo
    rounded = st.floats(lo, hi, allow_nan=False, allow_infinity=False).map(
        lambda x: min(hi, max(lo, float(f'{x:.3g}'))))
    frac = st.floats(0, 1).map(lambda u: lo + u * span)
    return st.one_of(rounded, frac, st.sampled_from([lo, hi]))


@st.composite
def surface_blocks(draw, allow_incoherent=False):
    """(label, block) for the end-use / plant selection."""
    kind = draw(st.sampled_from(['elec', 'elec', 'elec', 'heat', 'heat_legacy', 'heat_noplant', 'chiller', 'heatpump',
                                 'district', 'cogen', 'cogen', 'cogen']))
    if kind == 'elec':
        p = draw(st.integers(1, 4))
        return f'elec-p{p}', ELEC(p)
    if kind == 'heat':
        return 'heat-p9', list(HEAT)
    if kind == 'heat_legacy':
        p = draw(st.integers(1, 4))
        return f'heat-p{p}', HEAT_LEGACY(p)
    if kind == 'heat_noplant':
        return 'heat-nop', list(HEAT_NOPLANT)
    if kind == 'chiller':
        return 'chiller', merge(CHILLER, [['Absorption Chiller COP', fmt(draw(nice_floats(0.3, 1.5)))]])
    if kind == 'heatpump':
        return 'heatpump', merge(HEATPUMP, [['Heat Pump COP', fmt(draw(nice_floats(1.5, 6)))]])
    if kind == 'district':
        return 'district', list(DISTRICT)
    eu = draw(st.sampled_from([31, 32, 41, 42, 51, 52]))
    p = draw(st.integers(1, 4))
    blk = COGEN(eu, p)
    if eu in (51, 52):
        blk = blk + [['CHP Fraction', fmt(draw(nice_floats(0.05, 0.95)))]]
    if eu in (41, 42):
        blk = blk + [['CHP Bottoming Entering Temperature', fmt(draw(nice_floats(100, 170)))]]
    return f'cogen{eu}-p{p}', blk


@st.composite
def econ_blocks(draw):
    m = draw(st.sampled_from(['1', '2', '3']))
    blk = [list(x) for x in ECON[m]]
    if m == '1':
        blk[1][1] = fmt(draw(nice_floats(0.01, 0.3)))
    elif m == '2':
        blk[1][1] = fmt(draw(nice_floats(0.0, 0.3)))
    else:
        vals = {'Inflated Equity Interest Rate': (0.01, 0.3), 'Combined Income Tax Rate': (0, 0.6),
                'Gross Revenue Tax Rate': (0, 0.2), 'Fraction of Investment in Bonds': (0, 0.9),
                'Inflated Bond Interest Rate': (0.0, 0.2), 'Inflation Rate': (0, 0.1),
                'Investment Tax Credit Rate': (0, 0.5), 'Property Tax Rate': (0, 0.05)}
        for row in blk[1:]:
            lo, hi = vals[row[0]]
            if draw(st.booleans()):
                row[1] = fmt(draw(nice_floats(lo, hi)))
    return f'econ{m}', blk


@st.composite
def reservoir_blocks(draw, models=('4', '3'), slow_fraction=0.0, max_steps=2000):
    """reservoir + time grid; slow models (1,2) only with few steps."""
    if slow_fraction and draw(st.floats(0, 1)) < slow_fraction:
        m = draw(st.sampled_from(['1', '2']))
    else:
        m = draw(st.sampled_from(list(models)))
    blk = [list(x) for x in RESERVOIRS[m]]
    life = draw(st.one_of(st.integers(1, 40), st.integers(1, 100), st.sampled_from([1, 2, 30, 100])))
    if m in ('1', '2'):
        life = min(life, 12)
        tspy = draw(st.integers(1, 3))
    else:
        tspy = draw(st.one_of(st.integers(1, 12), st.integers(1, 100)))
        while life * tspy > max_steps and tspy > 1:
            tspy = max(1, tspy // 2)
        life = min(life, max_steps)
    blk = merge(blk, [['Plant Lifetime', str(life)], ['Time steps per year', str(tspy)]])
    # resource
    blk = merge(blk, [['Gradient 1', fmt(draw(nice_floats(25, 90)))],
                      ['Reservoir Depth', fmt(draw(nice_floats(1.5, 6)))],
                      ['Production Flow Rate per Well', fmt(draw(nice_floats(20, 110)))],
                      ['Injection Temperature', fmt(draw(nice_floats(30, 90)))]])
    if m == '4':
        blk = merge(blk, [['Drawdown Parameter', fmt(draw(nice_floats(0.0, 0.04)))]])
    if m == '3':
        blk = merge(blk, [['Drawdown Parameter', fmt(draw(nice_floats(1e-6, 2e-4)))]])
    if m in ('3', '4') and draw(st.integers(0, 3)) == 0:
        blk = merge(blk, [['Maximum Drawdown', fmt(draw(nice_floats(0.02, 0.6)))]])
    blk = merge(blk, [['Number of Production Wells', str(draw(st.integers(1, 6)))],
                      ['Number of Injection Wells', str(draw(st.integers(1, 6)))]])
    return f'res{m}', blk


# --------------------------------------------------------------------------- layers (each returns (labels, block))

_COMPONENT_COSTS = [
    ('Reservoir Stimulation Capital Cost', 0, 60), ('Exploration Capital Cost', 0, 40),
    ('Well Drilling and Completion Capital Cost', 0, 40), ('Injection Well Drilling and Completion Capital Cost', 0, 40),
    ('Surface Plant Capital Cost', 0, 300), ('Field Gathering System Capital Cost', 0, 40),
    ('Wellfield O&M Cost', 0, 10), ('Surface Plant O&M Cost', 0, 10), ('Water Cost', 0, 5),
]
_ADJ_FACTORS = [
    'Reservoir Stimulation Capital Cost Adjustment Factor', 'Exploration Capital Cost Adjustment Factor',
    'Well Drilling and Completion Capital Cost Adjustment Factor',
    'Injection Well Drilling and Completion Capital Cost Adjustment Factor', 'Wellfield O&M Cost Adjustment Factor',
    'Surface Plant Capital Cost Adjustment Factor', 'Field Gathering System Capital Cost Adjustment Factor',
    'Surface Plant O&M Cost Adjustment Factor', 'Water Cost Adjustment Factor',
]


@st.composite
def cost_layer(draw, surface_label=''):
    labels, blk = [], []
    n_fixed = 0
    for name, lo, hi in _COMPONENT_COSTS:
        # the injection-well cost only has an effect beside a supplied production-well cost: pair them more often
        paired = name.startswith('Injection Well') and any(b[0] == 'Well Drilling and Completion Capital Cost' for b in blk)
        if draw(st.integers(0, 1 if paired else 4)) == 0:
            blk.append([name, fmt(draw(nice_floats(lo, hi)))])
            n_fixed += 1
    if n_fixed:
        labels.append('fixed_component')
    n_adj = 0
    for name in _ADJ_FACTORS:
        if draw(st.integers(0, 5)) == 0:
            blk.append([name, fmt(draw(nice_floats(0, 10)))])
            n_adj += 1
    if n_adj:
        labels.append('adj_factor')
    if draw(st.integers(0, 7)) == 0:
        blk.append(['Total Capital Cost', fmt(draw(nice_floats(1, 500)))])
        labels.append('total_capex_given')
    if draw(st.integers(0, 7)) == 0:
        blk.append(['Total O&M Cost', fmt(draw(nice_floats(0.1, 30)))])
        labels.append('total_opex_given')
    if draw(st.integers(0, 3)) == 0:
        blk.append(['Investment Tax Credit Rate', fmt(draw(nice_floats(0.0, 0.6)))])
        labels.append('itc')
    for name, lo, hi, lab in [('One-time Grants Etc', 0, 20, 'grant'), ('Other Incentives', 0, 10, 'incentive'),
                              ('One-time Flat License Fees Etc', 0, 10, 'flatfee'),
                              ('Annual License Fees Etc', 0, 2, 'annualfee'), ('Tax Relief Per Year', 0, 2, 'taxrelief')]:
        if draw(st.integers(0, 4)) == 0:
            blk.append([name, fmt(draw(nice_floats(lo, hi)))])
            labels.append(lab)
    if draw(st.integers(0, 3)) == 0:
        blk.append(['Well Drilling Cost Correlation', str(draw(st.integers(1, 17)))])
    if draw(st.integers(0, 5)) == 0:
        blk.append(['Surface Piping Length', fmt(draw(nice_floats(0, 50)))])
        labels.append('piping')
    if draw(st.integers(0, 6)) == 0:
        blk.append(['Number of Multilateral Sections', str(draw(st.integers(1, 8)))])
        blk.append(['Nonvertical Length per Multilateral Section', fmt(draw(nice_floats(100, 3000)))])
        if draw(st.booleans()):
            blk.append(['Multilaterals Cased', draw(st.sampled_from(['True', 'False']))])
        labels.append('laterals')
    if draw(st.integers(0, 5)) == 0:
        blk.append(['Inflation Rate During Construction', fmt(draw(nice_floats(0, 0.3)))])
        labels.append('infl_constr')
    if surface_label == 'chiller':
        if draw(st.booleans()):
            blk.append(['Absorption Chiller Capital Cost', fmt(draw(nice_floats(0, 50)))])
        if draw(st.booleans()):
            blk.append(['Absorption Chiller O&M Cost', fmt(draw(nice_floats(0, 5)))])
    if surface_label == 'heatpump' and draw(st.booleans()):
        blk.append(['Heat Pump Capital Cost', fmt(draw(nice_floats(0, 50)))])
    if surface_label == 'district':
        k = draw(st.integers(0, 4))
        if k == 0:
            # (10 is the declared default: a figure typed by the user is supplied also when it equals the default)
            blk.append(['Total District Heating Network Cost', fmt(draw(st.one_of(nice_floats(0, 100), st.just(10.0))))])
        elif k == 1:
            blk.append(['District Heating Network Piping Length', fmt(draw(nice_floats(0.5, 100)))])
        elif k == 2:
            blk.append(['District Heating Population', fmt(draw(nice_floats(100, 200000)))])
            blk.append(['District Heating Land Area', fmt(draw(nice_floats(1, 200)))])
        if draw(st.integers(0, 2)) == 0:
            blk.append(['District Heating O&M Cost', fmt(draw(st.one_of(nice_floats(0, 5), st.just(1.0))))])
    if surface_label.startswith('cogen') and draw(st.integers(0, 3)) == 0:
        blk.append(['CHP Electrical Plant Cost Allocation Ratio', fmt(draw(nice_floats(0.05, 0.95)))])
        labels.append('chp_ratio_given')
    return labels, blk


@st.composite
def price_layer(draw):
    labels, blk = [], []
    cy = draw(st.one_of(st.just(1), st.integers(1, 5), st.integers(1, 14)))
    if cy != 1:
        blk.append(['Construction Years', str(cy)])
        labels.append('construction>1')
    for prod, lo, hi in [('Electricity', 0.01, 0.4), ('Heat', 0.005, 0.2), ('Cooling', 0.005, 0.2)]:
        if draw(st.integers(0, 2)) == 0:
            s0 = draw(nice_floats(lo, hi))
            e0 = draw(st.one_of(nice_floats(lo, hi * 2), st.just(s0)))
            blk += [[f'Starting {prod} Sale Price', fmt(s0)], [f'Ending {prod} Sale Price', fmt(e0)],
                    [f'{prod} Escalation Start Year', str(draw(st.one_of(st.integers(0, 10), st.integers(0, 100))))],
                    [f'{prod} Escalation Rate Per Year', fmt(draw(nice_floats(0, hi / 5)))]]
            labels.append('price_escalation')
    if draw(st.integers(0, 3)) == 0:
        blk += [['Do Carbon Price Calculations', 'True'],
                ['Starting Carbon Credit Value', fmt(draw(nice_floats(0, 0.1)))],
                ['Ending Carbon Credit Value', fmt(draw(nice_floats(0, 0.3)))],
                ['Carbon Escalation Start Year', str(draw(st.integers(0, 20)))],
                ['Carbon Escalation Rate Per Year', fmt(draw(nice_floats(0, 0.02)))]]
        labels.append('carbon')
    if draw(st.integers(0, 3)) == 0:
        blk.append(['Production Tax Credit Electricity', fmt(draw(nice_floats(0.001, 0.2)))])
        if draw(st.booleans()):
            blk.append(['Production Tax Credit Duration', str(draw(st.integers(0, 40)))])
        # the flag is stated as True, stated explicitly as its default False (provided but unchanged), or left out; the
        # inflation rate is drawn independently of it
        adj = draw(st.sampled_from(['True', 'False', 'false', None, None]))
        if adj is not None:
            blk.append(['Production Tax Credit Inflation Adjusted', adj])
            labels.append('ptc_inflation_flag_stated:' + adj.lower())
        if adj == 'True' or draw(st.booleans()):
            blk.append(['Inflation Rate', fmt(draw(nice_floats(0, 0.1)))])
        labels.append('ptc_elec')
    if draw(st.integers(0, 6)) == 0:
        blk.append(['Production Tax Credit Heat', fmt(draw(nice_floats(0.1, 10)))])
        labels.append('ptc_heat')
    if draw(st.integers(0, 3)) == 0:
        blk.append(['Fixed Internal Rate', fmt(draw(nice_floats(0.1, 30)))])
    k = draw(st.integers(0, 7))
    if k in (0, 1):
        blk.append(['Discount Initial Year Cashflow', 'True'])
        labels.append('npv_excel_convention')
    elif k == 2:
        # the default, stated explicitly (provided, but not changed)
        blk.append(['Discount Initial Year Cashflow', draw(st.sampled_from(['False', 'false']))])
        labels.append('npv_convention_default_stated')
    return labels, blk


@st.composite
def addon_layer(draw):
    n = draw(st.integers(1, 3))
    blk = [['Do AddOn Calculations', 'True']]
    for i in range(1, n + 1):
        blk += [[f'AddOn Nickname {i}', f'addon{i}'], [f'AddOn CAPEX {i}', fmt(draw(nice_floats(0, 60)))],
                [f'AddOn OPEX {i}', fmt(draw(nice_floats(0, 3)))],
                [f'AddOn Electricity Gained {i}', fmt(draw(st.one_of(st.just(0.0), nice_floats(0, 30000))))],
                [f'AddOn Heat Gained {i}', fmt(draw(st.one_of(st.just(0.0), nice_floats(0, 30000))))],
                [f'AddOn Profit Gained {i}', fmt(draw(nice_floats(0, 5)))]]
    return [f'addons{n}'], blk


def _fix_ptc(draw, params):
    """a PTC duration beyond the plant lifetime crashes the schedule builder (rejected input, and outside C16's
    quantifier 'durations 0..lifetime'): construct durations inside the lifetime instead of rejecting"""
    pd = dict((n, v) for n, v in params)
    if any(n.startswith('Production Tax Credit') for n in pd):
        life = int(float(pd.get('Plant Lifetime', '30')))
        dur = int(float(pd.get('Production Tax Credit Duration', '10')))
        if dur > life or 'Production Tax Credit Duration' not in pd:
            if draw(st.integers(0, 9)) != 0:
                params = merge(params, [['Production Tax Credit Duration', str(draw(st.integers(0, life)))]])
    return params


@st.composite
def configs(draw, reservoirs=('4', '3'), slow_fraction=0.0, max_steps=2000, addons=0.0, examples=0.15,
            costs=True, prices=True, sdac=0.0):
    """full synthetic or example-seeded configuration -> case dict"""
    if examples and draw(st.floats(0, 1)) < examples:
        from . import sim
        ex = draw(st.sampled_from(FAST_EXAMPLES))
        params = merge(sim.load_example_params(ex), [['Print Output to Console', '0']])
        labels = ['example-seeded']
        pdx = dict((n, v) for n, v in params)
        if pdx.get('Reservoir Model') in ('1', '2') or pdx.get('Power Plant Type') == '7':
            # the inverse-Laplace models and district heating cost seconds per run at the examples' resolution
            params = merge(params, [['Time steps per year', str(draw(st.integers(1, 2)))],
                                    ['Plant Lifetime', str(draw(st.integers(2, 15)))]])
        if costs and draw(st.booleans()):
            l2, b2 = draw(cost_layer())
            params = merge(params, b2)
            labels += l2
        if prices and draw(st.booleans()):
            l2, b2 = draw(price_layer())
            params = merge(params, b2)
            labels += l2
        params = _fix_ptc(draw, params)
        return {'family': f'example:{ex}', 'params': params, 'labels': labels}
    sl, sb = draw(surface_blocks())
    rl, rb = draw(reservoir_blocks(models=reservoirs, slow_fraction=slow_fraction,
                                   max_steps=60 if sl == 'district' else max_steps))
    el, eb = draw(econ_blocks())
    params = merge(rb, sb, eb)
    labels = [rl, sl.split('-')[0], sl, el]
    if draw(st.booleans()):
        params = merge(params, [['Utilization Factor', fmt(draw(nice_floats(0.3, 1)))],
                                ['End-Use Efficiency Factor', fmt(draw(nice_floats(0.3, 1)))],
                                ['Circulation Pump Efficiency', fmt(draw(nice_floats(0.3, 1)))]])
    if costs:
        l2, b2 = draw(cost_layer(surface_label=sl))
        params = merge(params, b2)
        labels += l2
    if prices:
        l2, b2 = draw(price_layer())
        params = merge(params, b2)
        labels += l2
    if addons and draw(st.floats(0, 1)) < addons:
        l2, b2 = draw(addon_layer())
        params = merge(params, b2)
        labels += l2
        if draw(st.integers(0, 6)) != 0:
            # the add-on report writer aborts (sys.exit) unless construction years == 1: keep most add-on cases runnable
            params = drop_param(params, 'Construction Years')
    params = _fix_ptc(draw, params)
    if sdac and draw(st.floats(0, 1)) < sdac:
        params = merge(params, SDAC)
        labels.append('sdac')
    return {'family': '-'.join([rl, sl, el]), 'params': params, 'labels': labels}
