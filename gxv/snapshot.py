"""Generic snapshot of every Parameter / OutputParameter hanging off a Model, taken between Calculate()
and PrintOutputs() (PrintOutputs rewrites values in display units, so values are copied)."""
import copy
from enum import Enum
from types import SimpleNamespace

import numpy as np

SECTIONS = ('reserv', 'wellbores', 'surfaceplant', 'economics', 'addeconomics', 'sdacgteconomics', 'outputs')


def _unit_str(u):
    if u is None:
        return None
    return u.value if isinstance(u, Enum) else str(u)


def _copy_value(v):
    if isinstance(v, np.ndarray):
        return v.copy()
    if isinstance(v, (list, tuple)):
        try:
            return [(_copy_value(x)) for x in v]
        except Exception:
            return copy.copy(v)
    if isinstance(v, (int, float, str, bool, type(None), Enum, np.generic)):
        return v
    try:
        return copy.deepcopy(v)
    except Exception:
        return v


class Snap(dict):
    """snap['economics']['CCap'].value ...; snap.get_value('economics', 'CCap')"""

    def v(self, section, attr, default=None):
        sec = self.get(section)
        if not sec or attr not in sec:
            return default
        return sec[attr].value

    def p(self, section, attr):
        sec = self.get(section)
        if not sec:
            return None
        return sec.get(attr)

    def by_name(self, name):
        """first parameter (any section) whose .Name == name"""
        for sec in SECTIONS:
            for a, p in (self.get(sec) or {}).items():
                if p.name == name:
                    return p
        return None


def take(model) -> Snap:
    from geophires_x.Parameter import Parameter, OutputParameter

    snap = Snap()
    for sec in SECTIONS:
        obj = getattr(model, sec, None)
        if obj is None:
            snap[sec] = None
            continue
        d = {}
        for attr, p in vars(obj).items():
            if isinstance(p, OutputParameter):
                d[attr] = SimpleNamespace(
                    kind='out', name=p.Name, value=_copy_value(p.value), cu=_unit_str(p.CurrentUnits),
                    pu=_unit_str(p.PreferredUnits), ut=_unit_str(p.UnitType), display_name=getattr(p, 'display_name', None))
            elif isinstance(p, Parameter):
                d[attr] = SimpleNamespace(
                    kind=type(p).__name__, name=p.Name, value=_copy_value(p.value), cu=_unit_str(p.CurrentUnits),
                    pu=_unit_str(p.PreferredUnits), ut=_unit_str(p.UnitType), provided=p.Provided, valid=p.Valid,
                    min=getattr(p, 'Min', None), max=getattr(p, 'Max', None),
                    default=_copy_value(getattr(p, 'DefaultValue', None)),
                    allowable=[] if len(getattr(p, 'AllowableRange', []) or []) > 1000 else list(getattr(p, 'AllowableRange', []) or []))
            elif not attr.startswith('_') and isinstance(p, (int, float, bool, np.generic, np.ndarray)) or (
                    isinstance(p, list) and (not p or isinstance(p[0], (int, float, np.generic)))):
                d[attr] = SimpleNamespace(kind='plain', name=attr, value=_copy_value(p), cu=None, pu=None, ut=None)
        d['__class__'] = type(obj).__name__
        snap[sec] = d
    # a few plain attributes oracles need
    snap['misc'] = {
        'reserv_class': type(model.reserv).__name__,
        'wellbores_class': type(model.wellbores).__name__,
        'surfaceplant_class': type(model.surfaceplant).__name__,
        'economics_class': type(model.economics).__name__,
        'outputs_class': type(model.outputs).__name__,
    }
    return snap


def to_jsonable(v, maxlen=None):
    if isinstance(v, np.ndarray):
        v = v.tolist()
    if isinstance(v, np.generic):
        v = v.item()
    if isinstance(v, Enum):
        return str(v.value)
    if isinstance(v, (list, tuple)):
        out = [to_jsonable(x) for x in v]
        if maxlen is not None and len(out) > maxlen:
            out = out[:maxlen] + ['...(%d more)' % (len(out) - maxlen)]
        return out
    if isinstance(v, dict):
        return {str(k): to_jsonable(x, maxlen) for k, x in v.items()}
    if isinstance(v, float):
        if v != v or v in (float('inf'), float('-inf')):
            return repr(v)
        return v
    if isinstance(v, (int, str, bool, type(None))):
        return v
    return repr(v)


def numeric_fields(snap: Snap, kinds=('out',)):
    """Flat {section.attr: value} for all numeric output values (scalars and series), for snapshot comparison."""
    out = {}
    for sec in SECTIONS:
        d = snap.get(sec)
        if not d:
            continue
        for attr, p in d.items():
            if attr == '__class__':
                continue
            if kinds and p.kind not in kinds and not (kinds == ('all',)):
                continue
            v = p.value
            if isinstance(v, Enum):
                v = v.value
            out[f'{sec}.{attr}'] = v
    return out


def enum_int(v):
    """int id of an option enum value (GeophiresInputEnum carries int_value); plain ints pass through."""
    iv = getattr(v, 'int_value', None)
    if iv is not None:
        return int(iv)
    if isinstance(v, Enum):
        try:
            return int(v.value)
        except (TypeError, ValueError):
            return None
    try:
        return int(v)
    except (TypeError, ValueError):
        return None
