"""Known-findings matcher.  known_findings.json is committed and never written at run time.
entry: {id, property, status: open|fixed, match: {field: regex,...}, what, evidence_case?, commit?}
`match` is evaluated (re.fullmatch) against {'clause': ..., **sig} of a violation record.  Only status=open
entries suppress; a fixed entry suppresses nothing."""
import json
import os
import re

from . import VERIF_DIR

PATH = os.path.join(VERIF_DIR, 'known_findings.json')


def load():
    if not os.path.exists(PATH):
        return []
    with open(PATH) as f:
        return json.load(f)['findings']


def match(entries, pid, viol):
    rec = {'clause': viol['clause'], **viol['sig']}
    for e in entries:
        if e.get('property') != pid or e.get('status') != 'open':
            continue
        ok = True
        for k, rx in e['match'].items():
            if k not in rec or re.fullmatch(rx, str(rec[k])) is None:
                ok = False
                break
        if ok:
            return e
    return None
