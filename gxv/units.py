"""Independent hand-written unit conversion table (NOT pint): unit string as spelled in the program's catalogue ->
(dimension, factor to the dimension's base unit, offset).  base = factor * value + offset."""

LB = 0.45359237
KWH_PER_MMBTU = 293.07107017222
TABLE = {
    # length (m)
    'meter': ('length', 1.0, 0.0), 'centimeter': ('length', 0.01, 0.0), 'kilometer': ('length', 1000.0, 0.0), 'ft': ('length', 0.3048, 0.0),
    'in': ('length', 0.0254, 0.0), 'mile': ('length', 1609.344, 0.0),
    # area (m2)
    'm**2': ('area', 1.0, 0.0), 'cm**2': ('area', 1e-4, 0.0), 'km**2': ('area', 1e6, 0.0), 'ft**2': ('area', 0.3048 ** 2, 0.0),
    'in**2': ('area', 0.0254 ** 2, 0.0), 'mi**2': ('area', 1609.344 ** 2, 0.0),
    # volume (m3)
    'm**3': ('volume', 1.0, 0.0), 'cm**3': ('volume', 1e-6, 0.0), 'km**3': ('volume', 1e9, 0.0), 'ft**3': ('volume', 0.3048 ** 3, 0.0),
    'in**3': ('volume', 0.0254 ** 3, 0.0), 'mi**3': ('volume', 1609.344 ** 3, 0.0),
    # mass (kg)
    'gram': ('mass', 1e-3, 0.0), 'kilogram': ('mass', 1.0, 0.0), 'tonne': ('mass', 1000.0, 0.0), 'kilotonne': ('mass', 1e6, 0.0),
    'pound': ('mass', LB, 0.0), 'ounce': ('mass', LB / 16.0, 0.0), 'ton': ('mass', 2000 * LB, 0.0),
    # density (kg/m3)
    'kg/m**3': ('density', 1.0, 0.0), 'kg/km**3': ('density', 1e-9, 0.0),
    # temperature (K)
    'degC': ('temperature', 1.0, 273.15), 'degK': ('temperature', 1.0, 0.0), 'degF': ('temperature', 5.0 / 9.0, 273.15 - 32.0 * 5.0 / 9.0),
    # pressure (Pa)
    'MPa': ('pressure', 1e6, 0.0), 'kPa': ('pressure', 1e3, 0.0), 'Pa': ('pressure', 1.0, 0.0), 'bar': ('pressure', 1e5, 0.0),
    'kbar': ('pressure', 1e8, 0.0), 'psi': ('pressure', 6894.757293168361, 0.0),
    # time (s) - 'yr' left out: the length of a year is a convention
    'msec': ('time', 1e-3, 0.0), 'sec': ('time', 1.0, 0.0), 'min': ('time', 60.0, 0.0), 'hr': ('time', 3600.0, 0.0), 'day': ('time', 86400.0, 0.0),
    'week': ('time', 604800.0, 0.0),
    # temperature gradient (K/m)
    'degC/km': ('gradient', 1e-3, 0.0), 'degC/m': ('gradient', 1.0, 0.0), 'degF/mi': ('gradient', (5.0 / 9.0) / 1609.344, 0.0),
    # power (W), energy (Wh)
    'W': ('power', 1.0, 0.0), 'kW': ('power', 1e3, 0.0), 'MW': ('power', 1e6, 0.0), 'GW': ('power', 1e9, 0.0),
    'Wh': ('energy', 1.0, 0.0), 'kWh': ('energy', 1e3, 0.0), 'MWh': ('energy', 1e6, 0.0), 'GWh': ('energy', 1e9, 0.0),
    # currency (USD) and currency per year
    'USD': ('currency', 1.0, 0.0), 'KUSD': ('currency', 1e3, 0.0), 'MUSD': ('currency', 1e6, 0.0),
    'USD/yr': ('currency_per_year', 1.0, 0.0), 'KUSD/yr': ('currency_per_year', 1e3, 0.0), 'MUSD/yr': ('currency_per_year', 1e6, 0.0),
    # energy cost (USD/kWh)
    'USD/kWh': ('energy_cost', 1.0, 0.0), 'USD/MWh': ('energy_cost', 1e-3, 0.0), 'cents/kWh': ('energy_cost', 0.01, 0.0),
    'USD/MMBTU': ('energy_cost', 1.0 / KWH_PER_MMBTU, 0.0),
    # cost per mass (USD/lb)
    'USD/lb': ('cost_per_mass', 1.0, 0.0), 'cents/lb': ('cost_per_mass', 0.01, 0.0), 'USD/mt': ('cost_per_mass', LB / 1000.0, 0.0),
    'USD/tonne': ('cost_per_mass', LB / 1000.0, 0.0), 'cents/mt': ('cost_per_mass', 0.01 * LB / 1000.0, 0.0),
    # CO2 intensity (lbs/kWh)
    'lbs/kWh': ('co2_intensity', 1.0, 0.0), 't/MWh': ('co2_intensity', (1000.0 / LB) / 1000.0, 0.0),
    # energy per year (kWh/yr family left to the simulator's own convention) - not varied
}


def dim(u):
    return TABLE[u][0] if u in TABLE else None


def to_base(v, u):
    d, f, o = TABLE[u]
    return v * f + o


def convert(v, u_from, u_to):
    """value v in u_from expressed in u_to"""
    d1, f1, o1 = TABLE[u_from]
    d2, f2, o2 = TABLE[u_to]
    if d1 != d2:
        raise ValueError((u_from, u_to))
    return (v * f1 + o1 - o2) / f2


def alternatives(u):
    d = dim(u)
    if d is None:
        return []
    return [x for x, (dd, _, _) in TABLE.items() if dd == d and x != u]


def factor(u_from, u_to):
    """multiplicative factor for differences / offset-free classes"""
    return TABLE[u_from][1] / TABLE[u_to][1]
