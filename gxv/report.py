"""Independent, section-scoped tokenizer of the GEOPHIRES-X text case report (used by C09 and C10).
It knows nothing about the client parser: sections are recognised by their star banners, scalar lines by the
'label: number unit' shape, tables by their boxed titles and numeric rows."""
import re

NUM = r'[-+]?(?:\d[\d,]*\.?\d*|\.\d+)(?:[eE][-+]?\d+)?|[-+]?nan|[-+]?inf'
LINE_RE = re.compile(r'^(?P<label>.*\S)\s*:\s+(?P<num>' + NUM + r'|N/A)(?:[ \t]+(?P<unit>\S.*?))?\s*$')
SECTION_RE = re.compile(r'^\s*\*{3}(?P<title>[^*].*?)\*{3}\s*$')
BOX_TITLE_RE = re.compile(r'^\s*\*\s{1,3}(?P<title>[A-Z][A-Z0-9 ,&/\-]+?)\s{1,3}\*\s*$')
ROW_RE = re.compile(r'^\s*(?:' + NUM + r')(?:\s+\|?\s*(?:' + NUM + r'|N/A)\s*\|?)*\s*$')


def to_float(tok):
    t = tok.replace(',', '')
    if t == 'N/A':
        return None
    try:
        return float(t)
    except ValueError:
        return None


def decimals_of(tok):
    """number of digits printed after the decimal point (None for exponent / general formats)"""
    t = tok.replace(',', '')
    if 'e' in t.lower() or t.lower().lstrip('+-') in ('nan', 'inf'):
        return None
    return len(t.split('.')[1]) if '.' in t else 0


def sig_digits_of(tok):
    t = tok.replace(',', '').lower().lstrip('+-')
    if 'e' in t:
        t = t.split('e')[0]
    d = t.replace('.', '').lstrip('0')
    return max(len(d), 1)


class Report:
    def __init__(self, text):
        self.text = text
        self.sections = {}     # title -> list of entries {label, tok, value, unit, line_no, raw}
        self.tables = {}       # title -> {'header': [lines], 'rows': [[tokens]], 'raw_rows': [str]}
        self.order = []
        self._parse()

    def _parse(self):
        lines = self.text.splitlines()
        cur = 'PREAMBLE'
        self.sections[cur] = []
        i = 0
        table = None
        while i < len(lines):
            ln = lines[i]
            m = SECTION_RE.match(ln)
            if m and not set(ln.strip()) <= set('*'):
                cur = m.group('title').strip()
                self.sections.setdefault(cur, [])
                self.order.append(cur)
                table = None
                i += 1
                continue
            mb = BOX_TITLE_RE.match(ln)
            if mb and i > 0 and set(lines[i - 1].strip()) <= set('*') and lines[i - 1].strip():
                title = mb.group('title').strip()
                table = {'header': [], 'rows': [], 'raw_rows': [], 'line_no': i}
                self.tables[title] = table
                cur = 'TABLE:' + title
                self.sections.setdefault(cur, [])
                i += 1
                continue
            if table is not None:
                s = ln.strip()
                if s and not set(s) <= set('*_-'):
                    if ROW_RE.match(ln):
                        toks = [t for t in re.split(r'[\s|]+', s) if t]
                        table['rows'].append(toks)
                        table['raw_rows'].append(ln)
                    elif not table['rows']:
                        table['header'].append(ln)
                    else:
                        # text after the rows ends the table
                        table = None
                        continue
                i += 1
                continue
            ml = LINE_RE.match(ln)
            if ml:
                tok = ml.group('num')
                self.sections[cur].append({'label': ml.group('label').strip(), 'tok': tok, 'value': to_float(tok),
                                           'unit': (ml.group('unit') or '').strip(), 'line_no': i, 'raw': ln})
            i += 1

    def entries(self):
        for sec, es in self.sections.items():
            for e in es:
                yield sec, e

    def find(self, section, label):
        return [e for e in self.sections.get(section, []) if e['label'] == label]
