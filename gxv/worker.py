"""Worker-side initialisation: import the code under test from the current tree, isolate temp files,
silence logging, and install the snapshot observer around Model.Calculate (no change to /repo needed)."""
import atexit
import io
import logging
import os
import shutil
import sys
import tempfile
import contextlib

from . import SRC_DIR

_STATE = {'ready': False, 'scratch': None, 'observers': [], 'last_model': None}


def scratch_dir() -> str:
    return _STATE['scratch']


def init_worker(scratch_root: str | None = None):
    """Idempotent. Must be called in the process that will run the code under test."""
    if _STATE['ready']:
        return
    os.environ.setdefault('MPLBACKEND', 'Agg')
    os.environ['GEOPHIRES_X_VERIF'] = '1'
    if SRC_DIR in sys.path:
        sys.path.remove(SRC_DIR)
    sys.path.insert(0, SRC_DIR)
    root = scratch_root or os.environ.get('GXV_SCRATCH_ROOT') or tempfile.gettempdir()
    d = tempfile.mkdtemp(prefix=f'gxv-w{os.getpid()}-', dir=root)
    _STATE['scratch'] = d
    # the client and the MC driver write into tempfile.gettempdir(): point it into our scratch dir
    os.environ['TMPDIR'] = d
    tempfile.tempdir = d
    atexit.register(lambda: shutil.rmtree(d, ignore_errors=True))
    logging.disable(logging.CRITICAL)
    with quiet():
        import geophires_x.Model as M  # noqa  (Model first: importing Economics first trips a circular import)

        src = os.path.realpath(M.__file__)
        if not src.startswith(os.path.realpath(SRC_DIR)):
            raise RuntimeError(f'HARNESS: geophires_x imported from {src}, expected under {SRC_DIR}')
        _install_observer(M)
    _STATE['ready'] = True


def _install_observer(M):
    orig = M.Model.Calculate
    if getattr(orig, '_gxv_wrapped', False):
        return

    def Calculate(self):
        orig(self)
        _STATE['last_model'] = self
        for obs in list(_STATE['observers']):
            obs(self)

    Calculate._gxv_wrapped = True
    M.Model.Calculate = Calculate


@contextlib.contextmanager
def observer(fn):
    _STATE['observers'].append(fn)
    try:
        yield
    finally:
        _STATE['observers'].remove(fn)


@contextlib.contextmanager
def quiet():
    """Swallow stdout/stderr chatter of the code under test (it print()s warnings and errors)."""
    out, err = sys.stdout, sys.stderr
    cap = io.StringIO()
    sys.stdout, sys.stderr = cap, io.StringIO()
    try:
        yield cap
    finally:
        sys.stdout, sys.stderr = out, err
