#!/bin/sh
# usage: tools/mutant.sh <patch.diff> <ID> [tier]   - run a check against a scratch worktree of /repo with the patch applied
# (never touches /repo's working tree; the worktree is removed afterwards)
set -u
patch="$(realpath "$1")"; id="$2"; tier="${3:-quick}"
wt="$(mktemp -d /tmp/gxv-mut-XXXXXX)"
git -C /repo worktree add --detach "$wt" "${GXV_BASE_REV:-HEAD}" -q || exit 2
( cd "$wt" && git apply "$patch" ) || { echo "PATCH DOES NOT APPLY"; git -C /repo worktree remove --force "$wt"; exit 2; }
cd "$(dirname "$0")/.." || exit 2
GXV_REPLAY_DIR="${GXV_REPLAY_DIR:-/tmp/gxv-mutant-replays}" GXV_REPO="$wt" GXV_SRC="$wt/src" ./check "$id" "$tier" --no-evidence 2>&1 | cut -c1-600 | tail -${TAILN:-12}
rc=$?
git -C /repo worktree remove --force "$wt"
rm -rf "$wt"
exit $rc
