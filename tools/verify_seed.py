#!/usr/bin/env python3
"""verify a seeded change directory (patch.diff, demo.py, meta.json): demo passes on clean tree, fails with the patch,
and the pinned baseline tests still pass with the patch.  Writes verified.json next to it.  Scratch worktree removed."""
import json, os, subprocess, sys, tempfile, shutil, xml.etree.ElementTree as ET
d = os.path.abspath(sys.argv[1])
base = json.load(open('/root/.vp/BASELINE.json'))
stable = set(base['stable_pass'])
wt = tempfile.mkdtemp(prefix='gxv-seed-', dir='/tmp')
os.rmdir(wt)
subprocess.check_call(['git', '-C', '/repo', 'worktree', 'add', '--detach', wt, os.environ.get('GXV_BASE_REV', 'HEAD'), '-q'])
env = dict(os.environ, PYTHONPATH=f'{wt}/src', MPLBACKEND='Agg', TMPDIR=tempfile.mkdtemp(prefix='gxv-seedtmp-', dir='/tmp'))
res = {'dir': d}
try:
    r0 = subprocess.run(['/venv/bin/python', f'{d}/demo.py'], cwd=env['TMPDIR'], env=env, capture_output=True, text=True, timeout=1200)
    res['demo_clean_rc'] = r0.returncode
    ap = subprocess.run(['git', 'apply', f'{d}/patch.diff'], cwd=wt, capture_output=True, text=True)
    res['apply_rc'] = ap.returncode
    r1 = subprocess.run(['/venv/bin/python', f'{d}/demo.py'], cwd=env['TMPDIR'], env=env, capture_output=True, text=True, timeout=1200)
    res['demo_patched_rc'] = r1.returncode
    res['demo_patched_tail'] = (r1.stdout + r1.stderr)[-600:]
    if '--no-tests' not in sys.argv:
        jx = os.path.join(env['TMPDIR'], 'j.xml')
        subprocess.run(['/venv/bin/python', '-m', 'pytest', '-q', '-p', 'no:cacheprovider', '--timeout=900', '--continue-on-collection-errors',
                        '-n', '6', f'--junitxml={jx}'], cwd=wt, env=env, capture_output=True, text=True, timeout=3000)
        passed = set()
        for tc in ET.parse(jx).getroot().iter('testcase'):
            if not any(ch.tag in ('failure', 'error', 'skipped') for ch in tc):
                passed.add(f"{tc.get('classname')}::{tc.get('name')}")
        # test_hip_ra_x_monte_carlo is timing-sensitive on the pinned tree (forked MC workers share numpy RNG state -> zero variance
        # -> RuntimeWarning-as-error); it fails on clean worktrees under load too, so it is not counted against a seeded change
        missing = sorted(t for t in stable - passed if not t.endswith('::test_hip_ra_x_monte_carlo'))
        res['baseline_missing'] = missing
        res['tests_ok'] = not missing
    res['verified'] = res['demo_clean_rc'] == 0 and res['apply_rc'] == 0 and res['demo_patched_rc'] == 1 and res.get('tests_ok', True)
finally:
    subprocess.call(['git', '-C', '/repo', 'worktree', 'remove', '--force', wt])
    shutil.rmtree(wt, ignore_errors=True); shutil.rmtree(env['TMPDIR'], ignore_errors=True)
json.dump(res, open(f'{d}/verified.json', 'w'), indent=1)
print(json.dumps({k: v for k, v in res.items() if k != 'demo_patched_tail'}))
