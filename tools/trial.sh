#!/bin/sh
# usage: tools/trial.sh <seed dir> <ID> [tier]  - verify a seeded change, then run the check against it (scratch worktrees only)
d="$1"; id="$2"; tier="${3:-quick}"
cd "$(dirname "$0")/.." || exit 2
python3 tools/verify_seed.py "$d" | cut -c1-400
GXV_REPLAY_DIR=/tmp/gxv-mutant-replays/$(basename "$d") TAILN=6 tools/mutant.sh "$d/patch.diff" "$id" "$tier" | cut -c1-300
