#!/usr/bin/env python3
"""keep_seed.py <seedname> <caught|missed> "<what I ran / result>"  - copy a verified seeded change from /tmp/seeded into /verif/seeded"""
import json, os, shutil, sys
name, status, note = sys.argv[1], sys.argv[2], sys.argv[3]
import os as _os
src = next(d for d in (f'/tmp/seeded/{name}', f'/tmp/seeded2/{name}', f'/tmp/seeded3/{name}', f'/tmp/seeded4/{name}', f'/tmp/seeded5/{name}') if _os.path.isdir(d))
dst = f'/verif/seeded/{name}'
ver = json.load(open(f'{src}/verified.json'))
assert ver['verified'], ver
os.makedirs(dst, exist_ok=True)
for f in ('patch.diff', 'demo.py'):
    shutil.copy(f'{src}/{f}', f'{dst}/{f}')
meta = json.load(open(f'{src}/meta.json'))
meta['breaks_property'] = meta.get('property', name[:3])
meta['confirmed_by_me'] = {'demo_rc_clean_tree': ver['demo_clean_rc'], 'demo_rc_with_patch': ver['demo_patched_rc'],
                           'pinned_baseline_tests_pass_with_patch': ver['tests_ok'],
                           'how': 'tools/verify_seed.py in a scratch worktree of /repo (removed afterwards)'}
meta['detection'] = {'status': status, 'what_i_ran': note}
json.dump(meta, open(f'{dst}/meta.json', 'w'), indent=1)
print('kept', dst)
