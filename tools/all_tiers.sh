#!/bin/sh
# usage: tools/all_tiers.sh [quick|thorough] [ids...]  - run checks one after the other, one summary line each;
# full output of every check is kept in ${GXV_TIER_LOGS:-/tmp/gxv-tiers}/<ID>.<tier>.log
cd "$(dirname "$0")/.." || exit 2
tier="${1:-quick}"; shift
ids="$*"; [ -z "$ids" ] && ids="C01 C02 C03 C04 C05 C06 C07 C08 C09 C10 C11 C12 C13 C14 C15 C16 C17 C18 C19 C20"
logs="${GXV_TIER_LOGS:-/tmp/gxv-tiers}"; mkdir -p "$logs"
for id in $ids; do
  t0=$(date +%s)
  ./check "$id" "$tier" > "$logs/$id.$tier.log" 2>&1; rc=$?
  echo "$id rc=$rc $(( $(date +%s) - t0 ))s $(grep -v '^KNOWN-FINDING' "$logs/$id.$tier.log" | tail -1 | cut -c1-220)"
done
